package main

import (
	"encoding/json"
	"flag"
	"fmt"
	"os"
	"path/filepath"
	"runtime"
	"sort"
	"strconv"
	"strings"
	"time"
)

type knownFinding struct {
	Property   string `json:"property"`
	Obligation string `json:"obligation"`
	Status     string `json:"status"` // "open" or "fixed"
	What       string `json:"what"`
	Commit     string `json:"commit,omitempty"`
	Replay     string `json:"replay,omitempty"`
}

type propMeta struct {
	Undecided   []string `json:"undecided_clauses"`
	Assumptions []string `json:"assumptions"`
	Bounded     []any    `json:"bounded_checks"`
}

func main() {
	if len(os.Args) < 2 {
		fmt.Fprintln(os.Stderr, "usage: gocv check <PROP> [quick|thorough] | gocv list | gocv func <key>")
		os.Exit(2)
	}
	switch os.Args[1] {
	case "check":
		os.Exit(cmdCheck(os.Args[2:]))
	case "func":
		os.Exit(cmdCheck(append([]string{"-func"}, os.Args[2:]...)))
	case "list":
		os.Exit(cmdList())
	}
	fmt.Fprintln(os.Stderr, "unknown command")
	os.Exit(2)
}

func verifDir() string {
	if d := os.Getenv("VERIF_DIR"); d != "" {
		return d
	}
	return "/verif"
}
func repoDir() string {
	if d := os.Getenv("VERIF_REPO"); d != "" {
		return d
	}
	return "/repo"
}

func setupEngine() (*Engine, error) {
	e := newEngine(repoDir(), filepath.Join(verifDir(), "specs"))
	dirs := findContractDirs(e.repo)
	if len(dirs) == 0 {
		return nil, fmt.Errorf("no %s files under %s/internal", contractFile, e.repo)
	}
	// helper packages whose small functions are inlined (verified in place) rather than assumed
	if data, err := os.ReadFile(filepath.Join(verifDir(), "specs", "load_extra.txt")); err == nil {
		for _, l := range strings.Split(string(data), "\n") {
			l = strings.TrimSpace(l)
			if l == "" || strings.HasPrefix(l, "#") {
				continue
			}
			dup := false
			for _, d := range dirs {
				if d == l {
					dup = true
				}
			}
			if !dup {
				dirs = append(dirs, l)
			}
		}
	}
	if err := e.load(dirs); err != nil {
		return nil, err
	}
	e.loadSpecs()
	e.index()
	return e, nil
}

func cmdList() int {
	e, err := setupEngine()
	if err != nil {
		fmt.Println("error:", err)
		return 3
	}
	for _, k := range sortedKeys(e.cs.Funcs) {
		c := e.cs.Funcs[k]
		fmt.Printf("%-90s trusted=%v props=%v\n", k, c.Trusted, e.props[k])
	}
	for _, er := range e.cs.Errors {
		fmt.Println("contract error:", er)
	}
	return 0
}

func cmdCheck(argv []string) int {
	fs := flag.NewFlagSet("check", flag.ExitOnError)
	fnOnly := fs.Bool("func", false, "argument is a function key substring instead of a property")
	verbose := fs.Bool("v", false, "verbose")
	dump := fs.String("dump", "", "directory to dump SMT queries of failed obligations")
	noCache := fs.Bool("nocache", false, "ignore the answer cache")
	timeoutS := fs.Int("timeout", 0, "per-obligation solver timeout (s)")
	fs.Parse(argv)
	args := fs.Args()
	if len(args) < 1 {
		fmt.Fprintln(os.Stderr, "need a property id")
		return 2
	}
	prop := args[0]
	tier := "quick"
	if len(args) > 1 {
		tier = args[1]
	}
	if t := os.Getenv("VERIF_TIER"); t != "" && len(args) < 2 {
		tier = t
	}
	seed := 0
	if s := os.Getenv("VERIF_SEED"); s != "" {
		seed, _ = strconv.Atoi(s)
	}
	t0 := time.Now()
	e, err := setupEngine()
	if err != nil {
		fmt.Printf("UNDECIDED property=%s reason=cannot load /repo with tag verif: %v\n", prop, err)
		return 3
	}
	e.verbose = *verbose
	loadS := time.Since(t0).Seconds()
	if len(e.cs.Errors) > 0 {
		for _, er := range e.cs.Errors {
			fmt.Println("contract error:", er)
		}
		fmt.Printf("UNDECIDED property=%s reason=contract files do not parse\n", prop)
		return 3
	}
	// select
	var keys []string
	for _, k := range sortedKeys(e.cs.Funcs) {
		c := e.cs.Funcs[k]
		if c.Trusted {
			continue
		}
		if *fnOnly {
			if strings.Contains(k, prop) {
				keys = append(keys, k)
			}
			continue
		}
		for _, p := range e.props[k] {
			if p == prop {
				keys = append(keys, k)
			}
		}
	}
	if len(keys) == 0 {
		fmt.Printf("UNDECIDED property=%s reason=no function under contract for this property\n", prop)
		return 3
	}
	var units []*Unit
	tGen := time.Now()
	for _, k := range keys {
		var u *Unit
		if e.cs.Funcs[k].Flags["closures_only"] != "" {
			// only the function literals under `closure n` sub-contracts are verified; the body of the function itself is
			// outside the engine's subset (listed as an assumption)
			u = &Unit{eng: e, name: shortFuncName(k), contract: e.cs.Funcs[k]}
			u.note("assumptions", "the body of "+shortFuncName(k)+" itself is not verified (flag closures_only): only its function literals under closure contracts are")
		} else {
			u = e.verify(k, e.cs.Funcs[k])
		}
		units = append(units, u)
		units = append(units, u.spawnUnits...)
		// function literals under a `closure n` sub-contract are units of their own
		var ords []int
		for n := range e.cs.Funcs[k].Closures {
			ords = append(ords, n)
		}
		sort.Ints(ords)
		for _, n := range ords {
			cc := e.cs.Funcs[k].Closures[n]
			if cp := cc.Flags["props"]; cp != "" && !strings.Contains(" "+cp+" ", " "+prop+" ") {
				continue // the closure's contract belongs to other properties than the enclosing function's
			}
			ck, err := e.prepareClosure(k, n)
			if err != nil {
				cu := &Unit{eng: e, name: shortFuncName(k) + fmt.Sprintf("$%d", n), contract: cc}
				cu.rejected = err.Error()
				units = append(units, cu)
				continue
			}
			cc.Key = ck
			cu := e.verify(ck, cc)
			units = append(units, cu)
			if *verbose {
				fmt.Printf("  %s: %d obligations, rejected=%q\n", cu.name, len(cu.obls), cu.rejected)
			}
		}
		if *verbose {
			fmt.Printf("  %s: %d obligations, rejected=%q\n", u.name, len(u.obls), u.rejected)
		}
	}
	// structural obligations: `flag callers_require <ghost>` on a callee - every call site in the loaded packages must lie
	// in a function whose contract requires that ghost (so the attach primitives are reachable only through checked layers)
	for _, k := range sortedKeys(e.cs.Funcs) {
		c := e.cs.Funcs[k]
		need := c.Flags["callers_require"]
		if need == "" {
			continue
		}
		mine := false
		for _, p := range e.props[k] {
			if p == prop {
				mine = true
			}
		}
		if !mine {
			continue
		}
		units = append(units, e.callSiteUnit(k, need))
	}
	genS := time.Since(tGen).Seconds()
	work, _ := os.MkdirTemp("", "gocv-run-")
	defer os.RemoveAll(work)
	cfg := &solverCfg{timeout: 10 * time.Second, cacheDir: filepath.Join(verifDir(), ".cache"), useCache: tier == "quick" && !*noCache, workDir: work, agree: tier == "thorough"}
	if tier == "thorough" {
		cfg.timeout = 60 * time.Second
	}
	if *timeoutS > 0 {
		cfg.timeout = time.Duration(*timeoutS) * time.Second
	}
	// obligations recorded as open known findings are expected to fail: one short attempt only (quick tier)
	if tier == "quick" {
		var kf []knownFinding
		if data, err := os.ReadFile(filepath.Join(verifDir(), "known_findings.json")); err == nil {
			json.Unmarshal(data, &kf)
		}
		for _, k := range kf {
			if k.Property == prop && k.Status == "open" {
				for _, u := range units {
					for _, o := range u.obls {
						if o.Name == k.Obligation {
							o.Short = true
						}
					}
				}
			}
		}
	}
	tSolve := time.Now()
	dischargeAll(units, cfg, runtime.NumCPU())
	solveS := time.Since(tSolve).Seconds()

	if pat := os.Getenv("GOCV_DUMP_ALL"); pat != "" && *dump != "" {
		// debugging aid: dump every obligation instance whose name contains the pattern, with its result
		os.MkdirAll(*dump, 0o755)
		n := 0
		for _, u := range units {
			for _, o := range u.obls {
				if strings.Contains(o.Name, pat) {
					n++
					os.WriteFile(filepath.Join(*dump, fmt.Sprintf("%03d_%s_%s.smt2", n, o.Result, smtName(strings.ReplaceAll(o.Name, "#", "__")))), []byte(u.smtText(o, false)), 0o644)
				}
			}
		}
	}
	if *verbose {
		for _, u := range units {
			for _, o := range u.obls {
				if o.TimeS > 1.0 {
					fmt.Printf("  slow: %s %.1fs %s %s (%s)\n", o.Name, o.TimeS, o.Result, o.Backend, o.Where)
				}
			}
		}
	}
	// known findings
	var known []knownFinding
	if data, err := os.ReadFile(filepath.Join(verifDir(), "known_findings.json")); err == nil {
		json.Unmarshal(data, &known)
	}
	openKF := map[string]knownFinding{}
	for _, k := range known {
		if k.Property == prop && k.Status == "open" {
			openKF[k.Obligation] = k
		}
	}
	// aggregate by name
	type agg struct {
		name      string
		kind      string
		n         int
		ok        bool
		anySat    bool
		worst     *Obligation
		fails     []*Obligation
		unitOf    map[*Obligation]*Unit
		backends  map[string]int
		timeS     float64
		coverSeen bool
	}
	aggs := map[string]*agg{}
	var order []string
	byBackend := map[string]int{}
	cacheHits := 0
	solverS := 0.0
	for _, u := range units {
		for _, o := range u.obls {
			a := aggs[o.Name]
			if a == nil {
				a = &agg{name: o.Name, kind: o.Kind, ok: true, backends: map[string]int{}}
				if o.Kind == "cover" {
					a.ok = false
				}
				aggs[o.Name] = a
				order = append(order, o.Name)
			}
			a.n++
			a.backends[o.Backend]++
			a.timeS += o.TimeS
			byBackend[o.Backend]++
			if o.Cached {
				cacheHits++
			}
			solverS += o.TimeS
			if o.Kind == "cover" {
				// reachable unless some solver proves the path condition contradictory
				if o.Result != "unsat" {
					a.ok = true
				} else if a.worst == nil {
					a.worst = o
				}
				continue
			}
			if o.Result != "unsat" {
				a.ok = false
				if a.unitOf == nil {
					a.unitOf = map[*Obligation]*Unit{}
				}
				a.fails = append(a.fails, o)
				a.unitOf[o] = u
				if a.worst == nil || (o.Result == "sat" && a.worst.Result != "sat") {
					a.worst = o
				}
				if o.Result == "sat" {
					a.anySat = true
				}
			}
		}
	}
	// baseline of obligation names that are discharged on the unchanged tree
	baseline := map[string]bool{}
	basePath := filepath.Join(verifDir(), "props", prop+".baseline.json")
	if data, err := os.ReadFile(basePath); err == nil {
		var names []string
		json.Unmarshal(data, &names)
		for _, n := range names {
			baseline[n] = true
		}
	}
	exit := 0
	nObl, nDis := 0, 0
	var violations []string
	var undecided []string
	var knownLines []string
	nReplays := 0
	nConfirmed := 0
	var samples []map[string]any
	replayDir := filepath.Join(verifDir(), "replays", prop)
	seenNow := map[string]bool{}
	for _, name := range order {
		a := aggs[name]
		seenNow[name] = true
		if kf, isKnown := openKF[name]; isKnown {
			if a.ok {
				fmt.Printf("NOTE: known finding %s no longer fails (obligation %s is discharged)\n", kf.What, name)
			} else {
				knownLines = append(knownLines, fmt.Sprintf("KNOWN-FINDING: property=%s %s [obligation %s]", prop, kf.What, name))
			}
			continue
		}
		nObl++
		if a.ok {
			nDis++
			if len(samples) < 6 && a.kind != "cover" {
				be := ""
				for b := range a.backends {
					be = b
				}
				samples = append(samples, map[string]any{"obligation": name, "instances": a.n, "backend": be, "result": "unsat", "time_s": round3(a.timeS)})
			}
			continue
		}
		o := a.worst
		if a.kind == "cover" {
			if *dump != "" {
				os.MkdirAll(*dump, 0o755)
				for _, u := range units {
					for _, oo := range u.obls {
						if oo == o {
							os.WriteFile(filepath.Join(*dump, smtName(strings.ReplaceAll(name, "#", "__"))+".smt2"), []byte(u.smtText(o, false)), 0o644)
						}
					}
				}
			}
			// On the unchanged tree this means a contradictory contract (checked with GOCV_STRICT_VACUITY=1 before every
			// commit of /verif); on a changed tree it usually means the change made a call site unreachable.
			if os.Getenv("GOCV_STRICT_VACUITY") != "" {
				violations = append(violations, fmt.Sprintf("BROKEN-CHECK property=%s vacuity: %s is unreachable (contradictory contract or assumed spec)", prop, name))
				if exit == 0 {
					exit = 3
				}
			} else if baseline[name] {
				// reachable on the unchanged tree, contradictory now: either the change made the code behind it dead, or
				// the model of the changed code is contradictory - in both cases whatever is claimed behind this point
				// holds vacuously and nothing is decided
				undecided = append(undecided, fmt.Sprintf("UNDECIDED property=%s %s was reachable on the unchanged tree and is unreachable now (dead code, or a contradictory model of the changed code): obligations behind it hold vacuously", prop, name))
			} else {
				fmt.Printf("VACUITY-NOTE property=%s %s is unreachable on this tree\n", prop, name)
				nDis++ // counted as decided: the canary is informational outside strict mode
			}
			continue
		}
		// failed obligation
		os.MkdirAll(replayDir, 0o755)
		rp := filepath.Join(replayDir, smtName(strings.ReplaceAll(name, "#", "__"))+".json")
		rec := map[string]any{"property": prop, "obligation": name, "where": o.Where, "result": o.Result, "path": o.Trace, "solver_output": o.Output, "goal": o.Goal}
		replayed := false
		if nReplays < 4 && os.Getenv("GOCV_NO_REPLAY") == "" {
			// candidates: the instance reported, then the other failing instances (other paths) of the same obligation
			cands := []*Obligation{o}
			for _, f := range a.fails {
				if f != o {
					cands = append(cands, f)
				}
			}
			tried := 0
			for _, f := range cands {
				ru := a.unitOf[f]
				if ru == nil || ru.root().replay == nil || tried >= 2 {
					break
				}
				tried++
				ok, info := tryReplay(ru.root(), prop, name, f, replayDir)
				if info != nil {
					info["return_path"] = f.Trace
					rec["replay"] = info
				}
				if ok {
					replayed = true
					nConfirmed++
					break
				}
			}
			if tried > 0 {
				nReplays++
			}
		}
		data, _ := json.MarshalIndent(rec, "", " ")
		os.WriteFile(rp, data, 0o644)
		if *dump != "" {
			os.MkdirAll(*dump, 0o755)
			for _, u := range units {
				for _, oo := range u.obls {
					if oo == o {
						os.WriteFile(filepath.Join(*dump, smtName(strings.ReplaceAll(name, "#", "__"))+".smt2"), []byte(u.smtText(o, true)), 0o644)
					}
				}
			}
		}
		switch {
		case o.Result == "sat" || baseline[name] || baseline[splitParent(name)] || replayed || (a.kind == "frame" && fnInBaseline(baseline, name)) || (o.Goal == "false" && fnInBaseline(baseline, name)):
			// (a goal that is literally false - a guarded field touched without its lock, a callee that must not be
			// entered with a lock held - is decided by its form: it fails on every execution that reaches it, and it
			// could not have existed on the unchanged tree of a function that was verified there)
			// a frame obligation exists only for a heap the function changes: where the function was verified on the
			// unchanged tree and the heap was not among those it changed, the obligation "this heap is left alone" held
			// there trivially (never generated) - its failure now is the failure of an obligation that used to hold
			suffix := ""
			if !replayed {
				suffix = " obligation=" + name + " result=" + o.Result + " no-failing-input-found"
			} else {
				suffix = " obligation=" + name
			}
			violations = append(violations, fmt.Sprintf("VIOLATION property=%s replay=%s%s", prop, rp, suffix))
			exit = 1
		default:
			undecided = append(undecided, fmt.Sprintf("UNDECIDED property=%s obligation=%s result=%s at %s (not in the baseline of discharged obligations; see %s)", prop, name, o.Result, o.Where, rp))
		}
	}
	// structural problems
	var rejected []string
	for _, u := range units {
		if u.rejected != "" {
			rejected = append(rejected, fmt.Sprintf("UNDECIDED property=%s function=%s reason=%s", prop, u.name, u.rejected))
		}
	}
	// obligations of the baseline that were not generated at all
	missing := 0
	for n := range baseline {
		if !seenNow[n] {
			missing++
			if *verbose {
				fmt.Println("  baseline obligation not generated:", n)
			}
		}
	}
	if os.Getenv("GOCV_WRITE_BASELINE") != "" && exit == 0 && len(rejected) == 0 {
		var names []string
		for _, n := range order {
			if aggs[n].ok {
				// covers too: a path that is reachable on the unchanged tree and unreachable later is reported
				names = append(names, n)
			}
		}
		sort.Strings(names)
		os.MkdirAll(filepath.Dir(basePath), 0o755)
		data, _ := json.MarshalIndent(names, "", " ")
		os.WriteFile(basePath, data, 0o644)
	}
	for _, l := range knownLines {
		fmt.Println(l)
	}
	for _, l := range violations {
		fmt.Println(l)
	}
	for _, l := range undecided {
		fmt.Println(l)
	}
	for _, l := range rejected {
		fmt.Println(l)
	}
	if exit == 0 && len(rejected) > 0 {
		exit = 3
	}
	if exit == 0 && len(undecided) > 0 {
		exit = 3
	}
	// evidence
	notes := map[string][]string{}
	var funcs []string
	for _, u := range units {
		funcs = append(funcs, u.name)
		for kind, set := range u.notes {
			for w := range set {
				notes[kind] = appendUniq(notes[kind], w)
			}
		}
	}
	for k := range notes {
		sort.Strings(notes[k])
	}
	var meta propMeta
	if data, err := os.ReadFile(filepath.Join(verifDir(), "props", prop+".meta.json")); err == nil {
		json.Unmarshal(data, &meta)
	}
	trusted := append([]string{}, notes["trusted"]...)
	trustedBase := []string{"gocv VC generator (this repository, /verif/gocv)", "SMT solvers: z3 5.1.0 (z3-new), cvc5 1.0.3, z3 4.8.12", "go/types view of /repo built with -tags verif"}
	for _, t := range trusted {
		trustedBase = append(trustedBase, "assumed contract: "+t)
	}
	assumptions := append([]string{}, meta.Assumptions...)
	assumptions = append(assumptions, notes["assumptions"]...)
	if prop == "C11" {
		// the command table: every Handle(*CommandContext) method in the loaded packages, and whether it is under contract
		for _, k := range sortedKeys(e.declOf) {
			fd := e.declOf[k]
			if fd.Name.Name != "Handle" || fd.Recv == nil || fd.Type.Params == nil || len(fd.Type.Params.List) != 1 {
				continue
			}
			var b strings.Builder
			printNode(&b, e.fset, fd.Type.Params.List[0].Type)
			if !strings.HasSuffix(b.String(), "CommandContext") {
				continue
			}
			if c := e.cs.Funcs[k]; c != nil && !c.Trusted {
				continue
			}
			assumptions = append(assumptions, "command handler NOT under contract (nothing is claimed about it): "+k)
		}
	}
	for _, a := range notes["abstracted"] {
		assumptions = append(assumptions, "abstracted call/operation (result havoc'd, no effect on modelled state assumed): "+a)
	}
	for _, a := range notes["loops_without_invariant"] {
		assumptions = append(assumptions, "loop without invariant (cut with `true`): "+a)
	}
	for _, a := range notes["locks_without_invariant"] {
		assumptions = append(assumptions, "lock without declared invariant (treated as no-op): "+a)
	}
	ev := map[string]any{
		"property_id": prop, "tier": tier, "seed": seed, "level": "proof",
		"coverage": map[string]any{
			"obligations": nObl, "discharged": nDis,
			"checker_cmd":              "/verif/check " + prop + " " + tier,
			"trusted_base":             trustedBase,
			"functions_under_contract": funcs,
			"obligation_instances":     countInstances(units),
			"by_backend":               byBackend,
			"solver_s":                 round3(solverS),
			"cache_hits":               cacheHits,
			"integer_model":            "mathematical Int with range assumptions at sources; fixed-width conversions are mod 2^k; int/int64 +,-,* not checked for wrap-around unless flagged",
			"dropped":                  notes["dropped"],
			"abstracted_calls":         notes["abstracted"],
			"inlined":                  notes["inlined"],
			"spawned":                  notes["spawned"],
			"known_finding_canaries":   knownLines,
			"replayable_functions":     replayable(units),
			"replays_confirmed":        nConfirmed,
			"bounded_checks":           meta.Bounded,
			"undecided_clauses":        meta.Undecided,
			"baseline_obligations_not_generated": missing,
			"samples":                  samples,
			"phase_s":                  map[string]float64{"load": round3(loadS), "vcgen": round3(genS), "solve_wall": round3(solveS)},
		},
		"assumptions": assumptions,
		"wall_s":      round3(time.Since(t0).Seconds()),
		"violations":  len(violations),
	}
	os.MkdirAll(filepath.Join(verifDir(), "evidence"), 0o755)
	data, _ := json.MarshalIndent(ev, "", " ")
	os.WriteFile(filepath.Join(verifDir(), "evidence", prop+".json"), data, 0o644)
	fmt.Printf("%s %s: %d functions, %d obligations (%d instances), %d discharged, %d known findings, %d violations, %d undecided; load %.1fs gen %.1fs solve %.1fs\n",
		prop, tier, len(units), nObl, countInstances(units), nDis, len(knownLines), len(violations), len(undecided)+len(rejected), loadS, genS, solveS)
	if nObl == 0 {
		fmt.Printf("BROKEN-CHECK property=%s zero obligations generated\n", prop)
		return 3
	}
	return exit
}

// replayable: the functions of this run for which a failed obligation is followed up by a run of the real code
// (plain-data inputs; see replay.go). For every other function a VIOLATION line ends with no-failing-input-found.
func replayable(units []*Unit) []string {
	out := []string{}
	for _, u := range units {
		if u.replay != nil {
			out = append(out, u.name)
		}
	}
	return out
}

// splitParent: "f#post:3.2" -> "f#post:3". A clause A ==> (B && C) is split into one obligation per conjunct; when
// every conjunct simplifies to true on the unchanged tree the clause is recorded unsplit, so the parent's name in the
// baseline vouches for its parts.
func splitParent(name string) string {
	i := strings.LastIndex(name, ".")
	if i < 0 || i < strings.LastIndex(name, ":") {
		return name
	}
	for _, c := range name[i+1:] {
		if c < '0' || c > '9' {
			return name
		}
	}
	return name[:i]
}

// fnInBaseline: some obligation of the function that name belongs to is in the baseline.
func fnInBaseline(baseline map[string]bool, name string) bool {
	i := strings.Index(name, "#")
	if i < 0 {
		return false
	}
	pre := name[:i+1]
	for n := range baseline {
		if strings.HasPrefix(n, pre) {
			return true
		}
	}
	return false
}

func countInstances(units []*Unit) int {
	n := 0
	for _, u := range units {
		n += len(u.obls)
	}
	return n
}

func appendUniq(xs []string, x string) []string {
	for _, y := range xs {
		if y == x {
			return xs
		}
	}
	return append(xs, x)
}

func round3(f float64) float64 { return float64(int(f*1000+0.5)) / 1000 }
