package main

import (
	"bytes"
	"context"
	"crypto/sha256"
	"encoding/hex"
	"encoding/json"
	"fmt"
	"os"
	"os/exec"
	"path/filepath"
	"regexp"
	"strconv"
	"strings"
	"sync"
	"time"
)

type solverCfg struct {
	scale    int // multiplies the short budgets of the first attempts (second-chance pass)
	timeout  time.Duration
	cacheDir string
	useCache bool
	workDir  string
	agree    bool // thorough: ask every solver
}

var reSymTok = regexp.MustCompile(`[A-Za-z_$][A-Za-z0-9_.$!]*`)

func termSyms(t Term) map[string]bool {
	m := map[string]bool{}
	for _, tok := range reSymTok.FindAllString(t, -1) {
		if strings.Contains(tok, "!") || strings.HasPrefix(tok, "sf$") {
			m[tok] = true
		}
	}
	return m
}

// relevantPC keeps the assumptions connected to the goal through shared symbols (hub symbols that occur in a large
// share of all assumptions do not connect). Dropping assumptions is always sound for a validity query.
func relevantPC(pc []Term, goal Term, rounds int, hubDiv int) []Term {
	syms := make([]map[string]bool, len(pc))
	freq := map[string]int{}
	for i, a := range pc {
		syms[i] = termSyms(a)
		for s := range syms[i] {
			freq[s]++
		}
	}
	hub := map[string]bool{}
	for s, n := range freq {
		if n >= 4 && n*hubDiv >= len(pc) {
			hub[s] = true
		}
	}
	cur := termSyms(goal)
	chosen := make([]bool, len(pc))
	for r := 0; r < rounds; r++ {
		added := false
		var newSyms []string
		for i := range pc {
			if chosen[i] {
				continue
			}
			for s := range syms[i] {
				if cur[s] && !hub[s] {
					chosen[i] = true
					added = true
					for t := range syms[i] {
						newSyms = append(newSyms, t)
					}
					break
				}
			}
		}
		for _, t := range newSyms {
			cur[t] = true
		}
		if !added {
			break
		}
	}
	var out []Term
	for i, a := range pc {
		if chosen[i] {
			out = append(out, a)
		}
	}
	return out
}

func (u *Unit) smtTextPC(o *Obligation, pc []Term, axioms []Term) string {
	var b strings.Builder
	b.WriteString("(set-logic ALL)\n")
	b.WriteString(u.decls.text())
	for _, a := range axioms {
		b.WriteString("(assert " + a + ")\n")
	}
	if d := u.strDistinctAxiom(); d != "true" {
		b.WriteString("(assert " + d + ")\n")
	}
	for _, p := range pc {
		b.WriteString("(assert " + p + ")\n")
	}
	b.WriteString("(assert (not " + o.Goal + "))\n(check-sat)\n")
	return b.String()
}

func (u *Unit) smtText(o *Obligation, models bool) string {
	var b strings.Builder
	if models {
		b.WriteString("(set-option :produce-models true)\n")
	}
	b.WriteString("(set-logic ALL)\n")
	b.WriteString(u.decls.text())
	for _, a := range u.axioms {
		b.WriteString("(assert " + a + ")\n")
	}
	if d := u.strDistinctAxiom(); d != "true" {
		b.WriteString("(assert " + d + ")\n")
	}
	for _, p := range o.PC {
		b.WriteString("(assert " + p + ")\n")
	}
	if o.Expect == "unsat" {
		b.WriteString("(assert (not " + o.Goal + "))\n")
	}
	b.WriteString("(check-sat)\n")
	if models {
		if len(o.Inputs) > 0 {
			var ts []string
			for _, k := range sortedKeys(o.Inputs) {
				ts = append(ts, o.Inputs[k])
			}
			b.WriteString("(get-value (" + strings.Join(ts, " ") + "))\n")
		}
	}
	return b.String()
}

type solverRun struct {
	name string
	args func(file string, secs int) []string
}

var solvers = []solverRun{
	{"z3-new", func(f string, s int) []string { return []string{"z3-new", fmt.Sprintf("-T:%d", s), f} }},
	{"cvc5", func(f string, s int) []string {
		return []string{"cvc5", "--incremental", fmt.Sprintf("--tlimit=%d", s*1000), f}
	}},
	{"z3", func(f string, s int) []string { return []string{"z3", fmt.Sprintf("-T:%d", s), f} }},
}

func runSolver(sr solverRun, file string, timeout time.Duration) (string, string, float64) {
	secs := int(timeout.Seconds())
	if secs < 1 {
		secs = 1
	}
	a := sr.args(file, secs)
	ctx, cancel := context.WithTimeout(context.Background(), timeout+2*time.Second)
	defer cancel()
	cmd := exec.CommandContext(ctx, a[0], a[1:]...)
	var out bytes.Buffer
	cmd.Stdout = &out
	cmd.Stderr = &out
	t0 := time.Now()
	cmd.Run()
	el := time.Since(t0).Seconds()
	txt := out.String()
	first := ""
	for _, l := range strings.Split(txt, "\n") {
		l = strings.TrimSpace(l)
		if l == "" || strings.HasPrefix(l, "WARNING") {
			continue
		}
		first = l
		break
	}
	switch first {
	case "sat", "unsat", "unknown":
		return first, txt, el
	}
	if strings.Contains(txt, "timeout") || ctx.Err() != nil {
		return "timeout", txt, el
	}
	return "error", txt, el
}

type cacheEntry struct {
	Result  string  `json:"result"`
	Backend string  `json:"backend"`
	TimeS   float64 `json:"time_s"`
	Output  string  `json:"output,omitempty"`
}

// discharge decides one obligation.
func (u *Unit) discharge(o *Obligation, cfg *solverCfg, seq int) {
	if o.Expect == "unsat" && (o.Goal == "true") {
		o.Result, o.Backend = "unsat", "syntactic"
		return
	}
	if o.Kind == "callsite" {
		o.Result, o.Backend = "sat", "syntactic"
		return
	}
	for _, p := range o.PC {
		if p == "false" {
			if o.Expect == "unsat" {
				o.Result, o.Backend = "unsat", "syntactic"
			} else {
				o.Result, o.Backend = "unsat", "syntactic"
			}
			return
		}
	}
	txt := u.smtText(o, false)
	o.SMTLen = len(txt)
	sum := sha256.Sum256([]byte(txt))
	key := hex.EncodeToString(sum[:])
	cpath := filepath.Join(cfg.cacheDir, key[:2], key+".json")
	if cfg.useCache {
		if data, err := os.ReadFile(cpath); err == nil {
			var ce cacheEntry
			if json.Unmarshal(data, &ce) == nil && (ce.Result == "unsat" || ce.Result == "sat") {
				o.Result, o.Backend, o.TimeS, o.Cached, o.Output = ce.Result, ce.Backend, ce.TimeS, true, ce.Output
				return
			}
		}
	}
	file := filepath.Join(cfg.workDir, fmt.Sprintf("q%06d.smt2", seq))
	os.WriteFile(file, []byte(txt), 0o644)
	defer os.Remove(file)
	var outs []string
	quickDone := false
	if o.Expect == "unsat" && !cfg.agree {
		// attempt 0: the full query, first solver, short budget (most obligations end here). Where the reduced
		// variants of attempt 1 apply, the first try is kept very short and the full budget comes after them
		// (attempt 1b): on long paths the reduced queries are decided in a fraction of the time of the full one
		b0 := 3 * cfg.sc() * u.contractScale()
		if len(o.PC) > 12 && !o.Short {
			b0 = cfg.sc()
		}
		res, out, el := runSolver(solvers[0], file, time.Duration(b0)*time.Second)
		if res == "unsat" || res == "sat" {
			o.Result, o.Backend, o.TimeS, o.Output = res, solvers[0].name, el, fmt.Sprintf("[%s] %s", solvers[0].name, strings.TrimSpace(firstLines(out, 3)))
			quickDone = true
		}
	}
	if !quickDone && o.Short {
		o.Result, o.Backend = "unknown", solvers[0].name
		return
	}
	if !quickDone && o.Expect == "unsat" {
		// attempt 0b: definitions of recursive spec functions the goal does not mention are dropped (their unfolding
		// is a matching loop that can starve an otherwise easy goal; sound: fewer hypotheses)
		var rax []Term
		dropped := false
		for _, a := range u.axioms {
			if i := strings.Index(a, ":pattern ((sf$"); i >= 0 && strings.Contains(a, "(forall") {
				name := a[i+len(":pattern (("):]
				if j := strings.IndexAny(name, " )"); j > 0 {
					name = name[:j]
				}
				if strings.Count(a, "("+name+" ") > 1 && !strings.Contains(o.Goal, "("+name+" ") {
					dropped = true
					continue
				}
			}
			rax = append(rax, a)
		}
		if dropped {
			rfile := filepath.Join(cfg.workDir, fmt.Sprintf("q%06d.norec.smt2", seq))
			os.WriteFile(rfile, []byte(u.smtTextPC(o, o.PC, rax)), 0o644)
			res, _, el := runSolver(solvers[0], rfile, time.Duration(3*cfg.sc()*u.contractScale())*time.Second)
			os.Remove(rfile)
			if res == "unsat" {
				o.Result, o.Backend, o.TimeS = "unsat", solvers[0].name+"(norec)", el
				if cfg.useCache {
					os.MkdirAll(filepath.Dir(cpath), 0o755)
					data, _ := json.Marshal(cacheEntry{"unsat", o.Backend, el, ""})
					os.WriteFile(cpath, data, 0o644)
				}
				return
			}
		}
	}
	if !quickDone && o.Expect == "unsat" && len(o.PC) > 12 {
		// attempt 1: only the assumptions connected to the goal (sound: fewer hypotheses), short budget
		for ai, att := range [][2]int{{1, 8}, {1, 5}, {2, 5}, {3, 4}} {
			rounds := att[0]*10 + ai
			rpc := relevantPC(o.PC, o.Goal, att[0], att[1])
			if len(rpc) >= len(o.PC) {
				continue
			}
			var rax []Term
			gs := termSyms(o.Goal)
			for _, p := range rpc {
				for s := range termSyms(p) {
					gs[s] = true
				}
			}
			for _, a := range u.axioms {
				keep := false
				for s := range termSyms(a) {
					if gs[s] {
						keep = true
					}
				}
				if keep || !strings.Contains(a, "forall") {
					rax = append(rax, a)
				}
			}
			rfile := filepath.Join(cfg.workDir, fmt.Sprintf("q%06d.r%d.smt2", seq, rounds))
			os.WriteFile(rfile, []byte(u.smtTextPC(o, rpc, rax)), 0o644)
			res, _, el := runSolver(solvers[0], rfile, time.Duration(2*cfg.sc()*u.contractScale())*time.Second)
			os.Remove(rfile)
			if res == "unsat" {
				o.Result, o.Backend, o.TimeS = "unsat", solvers[0].name+"(relevant)", el
				if cfg.useCache {
					os.MkdirAll(filepath.Dir(cpath), 0o755)
					data, _ := json.Marshal(cacheEntry{"unsat", o.Backend, el, ""})
					os.WriteFile(cpath, data, 0o644)
				}
				return
			}
		}
	}
	if !quickDone && o.Expect == "unsat" && !cfg.agree && len(o.PC) > 12 {
		// attempt 1b: the full query at the full short budget
		res, out, el := runSolver(solvers[0], file, time.Duration(3*cfg.sc()*u.contractScale())*time.Second)
		if res == "unsat" || res == "sat" {
			o.Result, o.Backend, o.TimeS, o.Output = res, solvers[0].name, el, fmt.Sprintf("[%s] %s", solvers[0].name, strings.TrimSpace(firstLines(out, 3)))
			quickDone = true
		}
	}
	final := "unknown"
	backend := ""
	total := 0.0
	per := cfg.timeout
	if quickDone {
		final, backend, total = o.Result, o.Backend, o.TimeS
		outs = append(outs, o.Output)
	}
	results := map[string]string{}
	use := solvers
	if o.Expect == "sat" {
		// reachability canaries only need "not refuted": one solver, short budget
		per = 2 * time.Second
		use = solvers[:1]
	}
	if o.Kind == "frame" && per > 4*time.Second {
		per = 4 * time.Second // true frame conditions are easy; false ones (contract gaps) should fail fast
	}
	if o.Expect != "sat" && !cfg.agree {
		// quick: a short first attempt, then the other back ends at full budget, then the first again
		use = []solverRun{solvers[0], solvers[1], solvers[2], solvers[0]}
		if cfg.scale > 1 {
			// second-chance pass: the first solver has just had its long attempt; the other two at full budget
			use = []solverRun{solvers[2], solvers[1]}
		}
	}
	for si, sr := range use {
		if quickDone {
			break
		}
		per := per
		if si == 0 && len(use) == 4 && per > 3*time.Second {
			per = 3 * time.Second
		}
		res, out, el := runSolver(sr, file, per)
		total += el
		results[sr.name] = res
		outs = append(outs, fmt.Sprintf("[%s] %s", sr.name, strings.TrimSpace(firstLines(out, 3))))
		if res == "unsat" || res == "sat" {
			if final == "unknown" {
				final, backend = res, sr.name
			} else if final != res {
				final, backend = "disagree", backend+"+"+sr.name
			}
			if !cfg.agree {
				break
			}
		}
	}
	o.Result, o.Backend, o.TimeS, o.Output = final, backend, total, strings.Join(outs, "\n")
	if final == "sat" && o.Expect == "unsat" && len(o.Inputs) > 0 {
		// fetch a model for the inputs
		mfile := filepath.Join(cfg.workDir, fmt.Sprintf("q%06d.model.smt2", seq))
		os.WriteFile(mfile, []byte(u.smtText(o, true)), 0o644)
		for _, sr := range solvers {
			if sr.name == strings.Split(backend, "+")[0] {
				_, out, _ := runSolver(sr, mfile, per)
				o.Output += "\n[model]\n" + strings.TrimSpace(out)
			}
		}
		os.Remove(mfile)
	}
	if cfg.useCache && (final == "unsat" || final == "sat") {
		os.MkdirAll(filepath.Dir(cpath), 0o755)
		data, _ := json.Marshal(cacheEntry{final, backend, total, o.Output})
		os.WriteFile(cpath, data, 0o644)
	}
}

// contractScale: `flag solver_scale N` on a function's contract multiplies the budgets of the short attempts for its
// obligations (functions verified path by path whose hardest paths sit close to the default budget).
func (u *Unit) contractScale() int {
	if r := u.root(); r.contract != nil {
		if v := r.contract.Flags["solver_scale"]; v != "" {
			if n, err := strconv.Atoi(strings.TrimSpace(v)); err == nil && n >= 1 && n <= 10 {
				return n
			}
		}
	}
	return 1
}

func (c *solverCfg) sc() int {
	if c.scale < 1 {
		return 1
	}
	return c.scale
}

func firstLines(s string, n int) string {
	ls := strings.Split(s, "\n")
	if len(ls) > n {
		ls = ls[:n]
	}
	return strings.Join(ls, " | ")
}

type job struct {
	u *Unit
	o *Obligation
	i int
}

var failedNames sync.Map

func dischargeAll(units []*Unit, cfg *solverCfg, workers int) {
	var jobs []job
	n := 0
	for _, u := range units {
		for _, o := range u.obls {
			jobs = append(jobs, job{u, o, n})
			n++
		}
	}
	ch := make(chan job)
	var wg sync.WaitGroup
	for w := 0; w < workers; w++ {
		wg.Add(1)
		go func() {
			defer wg.Done()
			for j := range ch {
				if j.o.Expect == "unsat" {
					if _, failed := failedNames.Load(j.o.Name); failed {
						// another instance of this obligation has already failed: the verdict for the name is settled
						j.o.Result, j.o.Backend = "unknown", "skipped(same obligation already failed)"
						continue
					}
				}
				j.u.discharge(j.o, cfg, j.i)
				if j.o.Expect == "unsat" && j.o.Result != "unsat" {
					failedNames.Store(j.o.Name, true)
				}
			}
		}()
	}
	for _, j := range jobs {
		ch <- j
	}
	close(ch)
	wg.Wait()
	// second chance: an obligation that no solver decided may simply have lost its time slices to the other 15 workers
	// (or to whatever else the machine was doing). Ask again, few at a time, with three times the budgets. Only
	// "unsat" can come out of this that was not there before; a real failure just fails again.
	var again []job
	for _, j := range jobs {
		if j.o.Expect == "unsat" && j.o.Result != "unsat" && j.o.Result != "sat" && !j.o.Short && j.o.Kind != "callsite" && !strings.HasPrefix(j.o.Backend, "skipped") {
			again = append(again, j)
		}
	}
	if len(again) == 0 || len(again) > 32 {
		return
	}
	cfg2 := *cfg
	cfg2.scale = 3
	cfg2.timeout = cfg.timeout * 2
	cfg2.useCache = false
	ch2 := make(chan job)
	var wg2 sync.WaitGroup
	for w := 0; w < 4; w++ {
		wg2.Add(1)
		go func() {
			defer wg2.Done()
			for j := range ch2 {
				prev := *j.o
				j.u.discharge(j.o, &cfg2, j.i)
				if j.o.Result != "unsat" {
					t := j.o.TimeS
					*j.o = prev
					j.o.TimeS += t
				} else {
					j.o.Backend += "(2nd)"
				}
			}
		}()
	}
	for _, j := range again {
		ch2 <- j
	}
	close(ch2)
	wg2.Wait()
}
