package main

import (
	"bytes"
	"context"
	"crypto/sha256"
	"encoding/hex"
	"encoding/json"
	"fmt"
	"os"
	"os/exec"
	"path/filepath"
	"strings"
	"sync"
	"time"
)

type solverCfg struct {
	timeout  time.Duration
	cacheDir string
	useCache bool
	workDir  string
	agree    bool // thorough: ask every solver
}

func (u *Unit) smtText(o *Obligation, models bool) string {
	var b strings.Builder
	if models {
		b.WriteString("(set-option :produce-models true)\n")
	}
	b.WriteString("(set-logic ALL)\n")
	b.WriteString(u.decls.text())
	for _, a := range u.axioms {
		b.WriteString("(assert " + a + ")\n")
	}
	if d := u.strDistinctAxiom(); d != "true" {
		b.WriteString("(assert " + d + ")\n")
	}
	for _, p := range o.PC {
		b.WriteString("(assert " + p + ")\n")
	}
	if o.Expect == "unsat" {
		b.WriteString("(assert (not " + o.Goal + "))\n")
	}
	b.WriteString("(check-sat)\n")
	if models {
		if len(o.Inputs) > 0 {
			var ts []string
			for _, k := range sortedKeys(o.Inputs) {
				ts = append(ts, o.Inputs[k])
			}
			b.WriteString("(get-value (" + strings.Join(ts, " ") + "))\n")
		}
	}
	return b.String()
}

type solverRun struct {
	name string
	args func(file string, secs int) []string
}

var solvers = []solverRun{
	{"z3-new", func(f string, s int) []string { return []string{"z3-new", fmt.Sprintf("-T:%d", s), f} }},
	{"cvc5", func(f string, s int) []string { return []string{"cvc5", "--incremental", fmt.Sprintf("--tlimit=%d", s*1000), f} }},
	{"z3", func(f string, s int) []string { return []string{"z3", fmt.Sprintf("-T:%d", s), f} }},
}

func runSolver(sr solverRun, file string, timeout time.Duration) (string, string, float64) {
	secs := int(timeout.Seconds())
	if secs < 1 {
		secs = 1
	}
	a := sr.args(file, secs)
	ctx, cancel := context.WithTimeout(context.Background(), timeout+2*time.Second)
	defer cancel()
	cmd := exec.CommandContext(ctx, a[0], a[1:]...)
	var out bytes.Buffer
	cmd.Stdout = &out
	cmd.Stderr = &out
	t0 := time.Now()
	cmd.Run()
	el := time.Since(t0).Seconds()
	txt := out.String()
	first := strings.TrimSpace(strings.SplitN(txt, "\n", 2)[0])
	switch first {
	case "sat", "unsat", "unknown":
		return first, txt, el
	}
	if strings.Contains(txt, "timeout") || ctx.Err() != nil {
		return "timeout", txt, el
	}
	return "error", txt, el
}

type cacheEntry struct {
	Result  string  `json:"result"`
	Backend string  `json:"backend"`
	TimeS   float64 `json:"time_s"`
	Output  string  `json:"output,omitempty"`
}

// discharge decides one obligation.
func (u *Unit) discharge(o *Obligation, cfg *solverCfg, seq int) {
	if o.Expect == "unsat" && (o.Goal == "true") {
		o.Result, o.Backend = "unsat", "syntactic"
		return
	}
	for _, p := range o.PC {
		if p == "false" {
			if o.Expect == "unsat" {
				o.Result, o.Backend = "unsat", "syntactic"
			} else {
				o.Result, o.Backend = "unsat", "syntactic"
			}
			return
		}
	}
	txt := u.smtText(o, false)
	o.SMTLen = len(txt)
	sum := sha256.Sum256([]byte(txt))
	key := hex.EncodeToString(sum[:])
	cpath := filepath.Join(cfg.cacheDir, key[:2], key+".json")
	if cfg.useCache {
		if data, err := os.ReadFile(cpath); err == nil {
			var ce cacheEntry
			if json.Unmarshal(data, &ce) == nil && (ce.Result == "unsat" || ce.Result == "sat") {
				o.Result, o.Backend, o.TimeS, o.Cached, o.Output = ce.Result, ce.Backend, ce.TimeS, true, ce.Output
				return
			}
		}
	}
	file := filepath.Join(cfg.workDir, fmt.Sprintf("q%06d.smt2", seq))
	os.WriteFile(file, []byte(txt), 0o644)
	defer os.Remove(file)
	var outs []string
	final := "unknown"
	backend := ""
	total := 0.0
	per := cfg.timeout
	results := map[string]string{}
	use := solvers
	if o.Expect == "sat" {
		// reachability canaries only need "not refuted": one solver, short budget
		per = 2 * time.Second
		use = solvers[:1]
	}
	if o.Kind == "frame" && per > 4*time.Second {
		per = 4 * time.Second // true frame conditions are easy; false ones (contract gaps) should fail fast
	}
	if o.Expect != "sat" && !cfg.agree {
		// quick: a short first attempt, then the other back ends at full budget, then the first again
		use = []solverRun{solvers[0], solvers[1], solvers[2], solvers[0]}
	}
	for si, sr := range use {
		per := per
		if si == 0 && len(use) == 4 && per > 3*time.Second {
			per = 3 * time.Second
		}
		res, out, el := runSolver(sr, file, per)
		total += el
		results[sr.name] = res
		outs = append(outs, fmt.Sprintf("[%s] %s", sr.name, strings.TrimSpace(firstLines(out, 3))))
		if res == "unsat" || res == "sat" {
			if final == "unknown" {
				final, backend = res, sr.name
			} else if final != res {
				final, backend = "disagree", backend+"+"+sr.name
			}
			if !cfg.agree {
				break
			}
		}
	}
	o.Result, o.Backend, o.TimeS, o.Output = final, backend, total, strings.Join(outs, "\n")
	if final == "sat" && o.Expect == "unsat" && len(o.Inputs) > 0 {
		// fetch a model for the inputs
		mfile := filepath.Join(cfg.workDir, fmt.Sprintf("q%06d.model.smt2", seq))
		os.WriteFile(mfile, []byte(u.smtText(o, true)), 0o644)
		for _, sr := range solvers {
			if sr.name == strings.Split(backend, "+")[0] {
				_, out, _ := runSolver(sr, mfile, per)
				o.Output += "\n[model]\n" + strings.TrimSpace(out)
			}
		}
		os.Remove(mfile)
	}
	if cfg.useCache && (final == "unsat" || final == "sat") {
		os.MkdirAll(filepath.Dir(cpath), 0o755)
		data, _ := json.Marshal(cacheEntry{final, backend, total, o.Output})
		os.WriteFile(cpath, data, 0o644)
	}
}

func firstLines(s string, n int) string {
	ls := strings.Split(s, "\n")
	if len(ls) > n {
		ls = ls[:n]
	}
	return strings.Join(ls, " | ")
}

type job struct {
	u *Unit
	o *Obligation
	i int
}

func dischargeAll(units []*Unit, cfg *solverCfg, workers int) {
	var jobs []job
	n := 0
	for _, u := range units {
		for _, o := range u.obls {
			jobs = append(jobs, job{u, o, n})
			n++
		}
	}
	ch := make(chan job)
	var wg sync.WaitGroup
	for w := 0; w < workers; w++ {
		wg.Add(1)
		go func() {
			defer wg.Done()
			for j := range ch {
				j.u.discharge(j.o, cfg, j.i)
			}
		}()
	}
	for _, j := range jobs {
		ch <- j
	}
	close(ch)
	wg.Wait()
}
