package main

import (
	"fmt"
	"sort"
	"strings"
)

// Term is SMT-LIB text. Sorts are SMT-LIB sort text.
type Term = string

const (
	SInt  = "Int"
	SBool = "Bool"
	SReal = "Real"
	SStr  = "Str"
)

func sArr(i, e string) string { return "(Array " + i + " " + e + ")" }

// Decls is the set of declared symbols of a verification unit, in order.
type Decls struct {
	order []string
	m     map[string]string // name -> full declaration line
	sorts map[string]bool
}

func newDecls() *Decls { return &Decls{m: map[string]string{}, sorts: map[string]bool{}} }

func (d *Decls) clone() *Decls {
	n := &Decls{m: map[string]string{}, sorts: map[string]bool{}}
	n.order = append(n.order, d.order...)
	for k, v := range d.m {
		n.m[k] = v
	}
	for k, v := range d.sorts {
		n.sorts[k] = v
	}
	return n
}

func (d *Decls) declConst(name, sort string) {
	if _, ok := d.m[name]; ok {
		return
	}
	d.m[name] = fmt.Sprintf("(declare-fun %s () %s)", name, sort)
	d.order = append(d.order, name)
}

func (d *Decls) declFun(name string, args []string, ret string) {
	if _, ok := d.m[name]; ok {
		return
	}
	d.m[name] = fmt.Sprintf("(declare-fun %s (%s) %s)", name, strings.Join(args, " "), ret)
	d.order = append(d.order, name)
}

func (d *Decls) raw(name, line string) {
	if _, ok := d.m[name]; ok {
		return
	}
	d.m[name] = line
	d.order = append(d.order, name)
}

func (d *Decls) text() string {
	var b strings.Builder
	for _, n := range d.order {
		b.WriteString(d.m[n])
		b.WriteByte('\n')
	}
	return b.String()
}

// ---- term helpers ----

func tInt(n int64) Term {
	if n < 0 {
		return fmt.Sprintf("(- %d)", -n)
	}
	return fmt.Sprintf("%d", n)
}
func tBool(b bool) Term {
	if b {
		return "true"
	}
	return "false"
}
func tNot(a Term) Term {
	switch a {
	case "true":
		return "false"
	case "false":
		return "true"
	}
	if strings.HasPrefix(a, "(not ") && balanced(a[5:len(a)-1]) {
		return a[5 : len(a)-1]
	}
	return "(not " + a + ")"
}

func balanced(s string) bool {
	d := 0
	for i := 0; i < len(s); i++ {
		switch s[i] {
		case '(':
			d++
		case ')':
			d--
			if d < 0 {
				return false
			}
		case ' ':
			if d == 0 {
				return false
			}
		}
	}
	return d == 0
}

func tAnd(xs ...Term) Term {
	var ys []Term
	for _, x := range xs {
		if x == "true" {
			continue
		}
		if x == "false" {
			return "false"
		}
		ys = append(ys, x)
	}
	switch len(ys) {
	case 0:
		return "true"
	case 1:
		return ys[0]
	}
	return "(and " + strings.Join(ys, " ") + ")"
}
func tOr(xs ...Term) Term {
	var ys []Term
	for _, x := range xs {
		if x == "false" {
			continue
		}
		if x == "true" {
			return "true"
		}
		ys = append(ys, x)
	}
	switch len(ys) {
	case 0:
		return "false"
	case 1:
		return ys[0]
	}
	return "(or " + strings.Join(ys, " ") + ")"
}
func tImp(a, b Term) Term {
	if a == "true" {
		return b
	}
	if a == "false" || b == "true" {
		return "true"
	}
	return "(=> " + a + " " + b + ")"
}
func tEq(a, b Term) Term {
	if a == b {
		return "true"
	}
	return "(= " + a + " " + b + ")"
}
func tIte(c, a, b Term) Term {
	if c == "true" {
		return a
	}
	if c == "false" {
		return b
	}
	if a == b {
		return a
	}
	return "(ite " + c + " " + a + " " + b + ")"
}
func tApp(f string, args ...Term) Term {
	if len(args) == 0 {
		return f
	}
	return "(" + f + " " + strings.Join(args, " ") + ")"
}
func tSel(a, i Term) Term      { return "(select " + a + " " + i + ")" }
func tStore(a, i, v Term) Term { return "(store " + a + " " + i + " " + v + ")" }
func tAdd(a, b Term) Term {
	if b == "0" {
		return a
	}
	if a == "0" {
		return b
	}
	return "(+ " + a + " " + b + ")"
}
func tSub(a, b Term) Term {
	if b == "0" {
		return a
	}
	return "(- " + a + " " + b + ")"
}
func tLe(a, b Term) Term { return "(<= " + a + " " + b + ")" }
func tLt(a, b Term) Term { return "(< " + a + " " + b + ")" }

func isIntLit(t Term) (int64, bool) {
	var n int64
	if _, err := fmt.Sscanf(t, "%d", &n); err == nil && fmt.Sprintf("%d", n) == t {
		return n, true
	}
	if strings.HasPrefix(t, "(- ") && strings.HasSuffix(t, ")") {
		if _, err := fmt.Sscanf(t[3:len(t)-1], "%d", &n); err == nil && fmt.Sprintf("%d", n) == t[3:len(t)-1] {
			return -n, true
		}
	}
	return 0, false
}

func sortedKeys[V any](m map[string]V) []string {
	ks := make([]string, 0, len(m))
	for k := range m {
		ks = append(ks, k)
	}
	sort.Strings(ks)
	return ks
}

// smtName makes an arbitrary string a legal SMT simple symbol (quoted symbols break cvc5/z3 parity on some chars).
func smtName(s string) string {
	var b strings.Builder
	for _, r := range s {
		switch {
		case r >= 'a' && r <= 'z', r >= 'A' && r <= 'Z', r >= '0' && r <= '9', r == '_', r == '.', r == '$', r == '!':
			b.WriteRune(r)
		case r == '/':
			b.WriteString("_")
		case r == '*':
			b.WriteString("P")
		case r == '[':
			b.WriteString("L")
		case r == ']':
			b.WriteString("J")
		case r == ' ':
		default:
			fmt.Fprintf(&b, "_%x_", r)
		}
	}
	return b.String()
}
