package main

import (
	"fmt"
	"go/ast"
	"go/printer"
	"go/token"
	"go/types"
	"strings"
)

func printNode(b *strings.Builder, fset *token.FileSet, n ast.Node) {
	printer.Fprint(b, fset, n)
}

func (u *Unit) info() *types.Info { return u.pkg.TypesInfo }

func (u *Unit) typeOf(e ast.Expr) types.Type {
	if tv, ok := u.info().Types[e]; ok {
		return tv.Type
	}
	if id, ok := e.(*ast.Ident); ok {
		if o := u.info().ObjectOf(id); o != nil {
			return o.Type()
		}
	}
	return nil
}

func (u *Unit) typeID(T types.Type) Term {
	r := u.root()
	k := "tid$" + typeKey(T)
	n := smtName(k)
	if !r.assumed[k] {
		if r.assumed == nil {
			r.assumed = map[string]bool{}
		}
		r.assumed[k] = true
		u.decls.declConst(n, SInt)
		cnt := 0
		for a := range r.assumed {
			if strings.HasPrefix(a, "tid$") {
				cnt++
			}
		}
		r.axioms = append(r.axioms, tEq(n, tInt(int64(1000+cnt))))
	} else {
		u.decls.declConst(n, SInt)
	}
	return n
}

func (u *Unit) clockTerm(st *State) Term {
	if v, ok := st.ghost["$now"]; ok {
		return v.S
	}
	t := u.fresh("now", SInt)
	st.ghost["$now"] = intVal(t)
	st.assume(tLt("TZERO", t))
	u.decls.declConst("TZERO", SInt)
	return t
}

// advanceClock models a time.Now() call: the ghost clock never decreases.
func (u *Unit) advanceClock(st *State) Term {
	old := u.clockTerm(st)
	if u.root().contract != nil && u.root().contract.Flags["frozen_clock"] != "" {
		return old
	}
	t := u.fresh("now", SInt)
	st.assume(tLe(old, t))
	st.ghost["$now"] = intVal(t)
	return t
}

func zeroTerm(sort string) Term {
	switch sort {
	case SInt:
		return "0"
	case SBool:
		return "false"
	case SReal:
		return "0.0"
	case SStr:
		return "str!empty"
	}
	return ""
}

func (u *Unit) zeroVal(st *State, T types.Type) Val {
	if isSliceT(T) {
		return Val{Kind: KSlice, T: T, Arr: "0", Off: "0", Len: "0", Cap: "0"}
	}
	if isTimeTime(T) {
		u.decls.declConst("TZERO", SInt)
		return scalar("TZERO", SInt, T)
	}
	if isStructVal(T) {
		r := u.alloc(st, "zero."+typeKey(T))
		u.zeroStruct(st, T, r)
		return scalar(r, SInt, T)
	}
	if at, ok := T.Underlying().(*types.Array); ok {
		r := u.alloc(st, "zeroarr")
		if s := sortOf(at.Elem()); !isSliceT(at.Elem()) && zeroTerm(s) != "" && !isStructVal(at.Elem()) {
			z := zeroTerm(s)
			if s == SStr {
				z = u.strLit("")
			}
			u.setElemArray(st, at.Elem(), r, fmt.Sprintf("((as const %s) %s)", sArr(SInt, s), z))
		}
		return scalar(r, SInt, T)
	}
	s := sortOf(T)
	if s == SStr {
		return scalar(u.strLit(""), SStr, T)
	}
	return scalar(zeroTerm(s), s, T)
}

func (u *Unit) zeroStruct(st *State, T types.Type, ref Term) {
	s := structOf(T)
	if s == nil || isOpaqueStruct(T) {
		return
	}
	for i := 0; i < s.NumFields(); i++ {
		f := s.Field(i)
		if isOpaqueStruct(f.Type()) {
			continue
		}
		if isStructVal(f.Type()) {
			sub := u.fieldRead(st, T, f, ref)
			u.zeroStruct(st, f.Type(), sub.S)
			continue
		}
		if isArrayT(f.Type()) {
			continue
		}
		u.storeAt(st, fieldHeap(T, f.Name()), f.Type(), ref, u.zeroVal(st, f.Type()))
	}
}

// copyStruct copies all fields of the struct at src into dst.
func (u *Unit) copyStruct(st *State, T types.Type, dst, src Term) {
	s := structOf(T)
	if s == nil || isOpaqueStruct(T) {
		return
	}
	for i := 0; i < s.NumFields(); i++ {
		f := s.Field(i)
		if isOpaqueStruct(f.Type()) {
			continue
		}
		if isStructVal(f.Type()) {
			u.copyStruct(st, f.Type(), u.fieldRead(st, T, f, dst).S, u.fieldRead(st, T, f, src).S)
			continue
		}
		if at, ok := f.Type().Underlying().(*types.Array); ok {
			if !isSliceT(at.Elem()) {
				u.setElemArray(st, at.Elem(), u.fieldRead(st, T, f, dst).S, u.elemArray(st, at.Elem(), u.fieldRead(st, T, f, src).S))
			}
			continue
		}
		u.storeAt(st, fieldHeap(T, f.Name()), f.Type(), dst, u.loadAt(st, fieldHeap(T, f.Name()), f.Type(), src))
	}
}

// copyVal gives value semantics to struct and array values on assignment / passing.
func (u *Unit) copyVal(st *State, v Val) Val {
	if v.Kind != KScalar || v.T == nil {
		return v
	}
	if isStructVal(v.T) && !isOpaqueStruct(v.T) {
		r := u.alloc(st, "copy."+typeKey(v.T))
		u.copyStruct(st, v.T, r, v.S)
		return scalar(r, SInt, v.T)
	}
	if at, ok := v.T.Underlying().(*types.Array); ok && !isSliceT(at.Elem()) {
		r := u.alloc(st, "copyarr")
		u.setElemArray(st, at.Elem(), r, u.elemArray(st, at.Elem(), v.S))
		return scalar(r, SInt, v.T)
	}
	return v
}

// ---- maps ----

func mapHeaps(t *types.Map) (dom, val, card string) {
	k := typeKey(t.Key()) + "$" + typeKey(t.Elem())
	return "MD$" + k, "MV$" + k, "MC$" + k
}

func (u *Unit) keySort(t *types.Map) string {
	s := sortOf(t.Key())
	if s == "" {
		return SInt
	}
	return s
}

func (u *Unit) mapHas(st *State, t *types.Map, m Term, k Val) Term {
	d, _, _ := mapHeaps(t)
	return tAnd(tNot(tEq(m, "0")), tSel(tSel(u.heapTerm(st, d, sArr(SInt, sArr(u.keySort(t), SBool))), m), k.S))
}

func (u *Unit) mapCard(st *State, t *types.Map, m Term) Term {
	_, _, c := mapHeaps(t)
	r := tSel(u.heapTerm(st, c, sArr(SInt, SInt)), m)
	u.assumeOnce(st, tLe("0", r))
	return r
}

func (u *Unit) mapGet(st *State, t *types.Map, m Term, k Val) Val {
	_, vh, _ := mapHeaps(t)
	ks := u.keySort(t)
	if isSliceT(t.Elem()) {
		v := Val{Kind: KSlice, T: t.Elem()}
		get := func(suf string) Term {
			return tSel(tSel(u.heapTerm(st, vh+suf, sArr(SInt, sArr(ks, SInt))), m), k.S)
		}
		v.Arr, v.Off, v.Len, v.Cap = get(".arr"), get(".off"), get(".len"), get(".cap")
		u.assumeOnce(st, u.typeAssume(v))
		u.assumeOnce(st, tLt(v.Arr, st.frontier))
		return v
	}
	vs := sortOf(t.Elem())
	v := scalar(tSel(tSel(u.heapTerm(st, vh, sArr(SInt, sArr(ks, vs))), m), k.S), vs, t.Elem())
	if _, _, ok := intRange(t.Elem()); ok {
		u.assumeOnce(st, u.typeAssume(v))
	} else if vs == SInt && !isTimeTime(t.Elem()) {
		u.assumeOnce(st, tAnd(tLe("0", v.S), tLt(v.S, st.frontier)))
	}
	return v
}

// mapLookup gives Go's m[k] semantics: zero value when absent.
func (u *Unit) mapLookup(st *State, t *types.Map, m Term, k Val) (Val, Term) {
	has := u.mapHas(st, t, m, k)
	v := u.mapGet(st, t, m, k)
	z := u.zeroValPure(t.Elem())
	if v.Kind == KSlice {
		return Val{Kind: KSlice, T: v.T, Arr: tIte(has, v.Arr, "0"), Off: tIte(has, v.Off, "0"), Len: tIte(has, v.Len, "0"), Cap: tIte(has, v.Cap, "0")}, has
	}
	return scalar(tIte(has, v.S, z), v.Sort, v.T), has
}

func (u *Unit) zeroValPure(T types.Type) Term {
	if isTimeTime(T) {
		u.decls.declConst("TZERO", SInt)
		return "TZERO"
	}
	s := sortOf(T)
	if s == SStr {
		return u.strLit("")
	}
	return zeroTerm(s)
}

func (u *Unit) mapSet(st *State, t *types.Map, m Term, k Val, v Val) {
	// values and keys of interface type are boxed on the way in
	if _, isI := t.Elem().Underlying().(*types.Interface); isI {
		v = u.coerce(st, v, t.Elem())
	}
	if _, isI := t.Key().Underlying().(*types.Interface); isI {
		k = u.coerce(st, k, t.Key())
	}
	d, vh, c := mapHeaps(t)
	ks := u.keySort(t)
	dsort := sArr(SInt, sArr(ks, SBool))
	dh := u.heapTerm(st, d, dsort)
	had := tSel(tSel(dh, m), k.S)
	ch := u.heapTerm(st, c, sArr(SInt, SInt))
	card := tSel(ch, m)
	u.assumeOnce(st, tLe("0", card))
	u.assumeOnce(st, tImp(had, tLt("0", card)))
	u.logWrite(st, c, m)
	u.logWrite(st, d, m)
	u.setHeap(st, c, sArr(SInt, SInt), tStore(ch, m, tIte(had, card, tAdd(card, "1"))))
	u.setHeap(st, d, dsort, tStore(dh, m, tStore(tSel(dh, m), k.S, "true")))
	if isSliceT(t.Elem()) {
		for _, cc := range []struct {
			suf string
			t   Term
		}{{".arr", v.Arr}, {".off", v.Off}, {".len", v.Len}, {".cap", v.Cap}} {
			sort := sArr(SInt, sArr(ks, SInt))
			h := u.heapTerm(st, vh+cc.suf, sort)
			u.logWrite(st, vh+cc.suf, m)
			u.setHeap(st, vh+cc.suf, sort, tStore(h, m, tStore(tSel(h, m), k.S, cc.t)))
		}
		return
	}
	vs := sortOf(t.Elem())
	sort := sArr(SInt, sArr(ks, vs))
	h := u.heapTerm(st, vh, sort)
	u.logWrite(st, vh, m)
	u.setHeap(st, vh, sort, tStore(h, m, tStore(tSel(h, m), k.S, v.S)))
}

func (u *Unit) mapDelete(st *State, t *types.Map, m Term, k Val) {
	d, _, c := mapHeaps(t)
	ks := u.keySort(t)
	dsort := sArr(SInt, sArr(ks, SBool))
	dh := u.heapTerm(st, d, dsort)
	had := tSel(tSel(dh, m), k.S)
	ch := u.heapTerm(st, c, sArr(SInt, SInt))
	card := tSel(ch, m)
	u.assumeOnce(st, tLe("0", card))
	u.assumeOnce(st, tImp(had, tLt("0", card)))
	u.logWrite(st, c, m)
	u.logWrite(st, d, m)
	u.setHeap(st, c, sArr(SInt, SInt), tStore(ch, m, tIte(had, tSub(card, "1"), card)))
	u.setHeap(st, d, dsort, tStore(dh, m, tStore(tSel(dh, m), k.S, "false")))
}

func (u *Unit) mapNew(st *State, t *types.Map) Term {
	r := u.alloc(st, "map")
	d, _, c := mapHeaps(t)
	ks := u.keySort(t)
	dsort := sArr(SInt, sArr(ks, SBool))
	dh := u.heapTerm(st, d, dsort)
	u.setHeap(st, d, dsort, tStore(dh, r, fmt.Sprintf("((as const %s) false)", sArr(ks, SBool))))
	ch := u.heapTerm(st, c, sArr(SInt, SInt))
	u.setHeap(st, c, sArr(SInt, SInt), tStore(ch, r, "0"))
	return r
}

// ---- strings / bytes ----

// strOfBytes: string(b) – a string with the same length and characters.
func (u *Unit) strOfBytes(st *State, b Val) Term {
	el := b.T.Underlying().(*types.Slice).Elem()
	content := u.elemArray(st, el, b.Arr)
	s := u.bstr(content, b.Off, b.Len)
	if !strings.Contains(s, "!q") {
		// the defining facts for this instance (the global axioms need a trigger term the goal may not contain)
		r := u.root()
		if r.bstrSeen == nil {
			r.bstrSeen = map[string]bool{}
		}
		if !r.bstrSeen[s] {
			r.bstrSeen[s] = true
			q := fmt.Sprintf("i!q%d", u.nextQ())
			r.axioms = append(r.axioms, tImp(tLe("0", b.Len), tEq(tApp("slen", s), b.Len)))
			r.axioms = append(r.axioms, fmt.Sprintf("(forall ((%s Int)) (! (=> (and (<= 0 %s) (< %s %s)) (= (sat %s %s) (select %s (+ %s %s)))) :pattern ((sat %s %s))))", q, q, q, b.Len, s, q, content, b.Off, q, s, q))
		}
	}
	return s
}

// bstr(content, off, len): the string spelt by a byte range - a function of the bytes, so converting the same bytes
// twice (or in the code and in a contract) gives the same term.
func (u *Unit) bstr(content, off, n Term) Term {
	r := u.root()
	if !r.bstrDecl {
		r.bstrDecl = true
		u.decls.declFun("bstr", []string{sArr(SInt, SInt), SInt, SInt}, SStr)
		r.axioms = append(r.axioms,
			"(forall ((c!q (Array Int Int)) (o!q Int) (n!q Int)) (! (=> (<= 0 n!q) (= (slen (bstr c!q o!q n!q)) n!q)) :pattern ((bstr c!q o!q n!q))))",
			"(forall ((c!q (Array Int Int)) (o!q Int) (n!q Int) (i!q Int)) (! (=> (and (<= 0 i!q) (< i!q n!q)) (= (sat (bstr c!q o!q n!q) i!q) (select c!q (+ o!q i!q)))) :pattern ((sat (bstr c!q o!q n!q) i!q))))")
	}
	return tApp("bstr", content, off, n)
}

// bytesOfStr: []byte(s)
func (u *Unit) bytesOfStr(st *State, s Term, T types.Type) Val {
	r := u.alloc(st, "bytes")
	n := tApp("slen", s)
	el := T.Underlying().(*types.Slice).Elem()
	content := u.fresh("bytes.content", sArr(SInt, SInt))
	q := fmt.Sprintf("i!q%d", u.nextQ())
	st.assume(fmt.Sprintf("(forall ((%s Int)) (! (=> (and (<= 0 %s) (< %s %s)) (= (select %s %s) (sat %s %s))) :pattern ((select %s %s))))", q, q, q, n, content, q, s, q, content, q))
	u.setElemArray(st, el, r, content)
	u.assumeOnce(st, tLe("0", n))
	// remember which string these bytes spell (used by byte-comparison specs such as hmac.Equal)
	u.decls.declFun("strof", []string{SInt}, SStr)
	st.assume(tEq(tApp("strof", r), s))
	return Val{Kind: KSlice, T: T, Arr: r, Off: "0", Len: n, Cap: n}
}

func (u *Unit) strSub(st *State, s Val, lo, hi Term) Val {
	r := tApp("ssub", s.S, lo, hi)
	// instantiate the defining facts for this term
	st.assume(tEq(tApp("slen", r), tSub(hi, lo)))
	q := fmt.Sprintf("i!q%d", u.nextQ())
	st.assume(fmt.Sprintf("(forall ((%s Int)) (! (=> (and (<= 0 %s) (< %s (- %s %s))) (= (sat %s %s) (sat %s (+ %s %s)))) :pattern ((sat %s %s))))", q, q, q, hi, lo, r, q, s.S, lo, q, r, q))
	return scalar(r, SStr, s.T)
}

// ---- expression evaluation over the typed AST ----

func (u *Unit) eval(st *State, e ast.Expr) Val {
	if tv, ok := u.info().Types[e]; ok && tv.Value != nil {
		if v, ok := constToVal(u, tv.Value, tv.Type); ok {
			return v
		}
	}
	switch x := e.(type) {
	case *ast.ParenExpr:
		return u.eval(st, x.X)
	case *ast.BasicLit:
		u.reject("unsupported literal %s", x.Value)
		return u.freshVal("lit", u.typeOf(e))
	case *ast.Ident:
		return u.evalIdent(st, x)
	case *ast.FuncLit:
		r := u.root()
		id := r.cloOrd[x]
		ref := u.alloc(st, fmt.Sprintf("closure%d", id))
		return Val{Kind: KScalar, Sort: SInt, T: u.typeOf(e), S: ref, Closure: &closure{lit: x, id: id}}
	case *ast.UnaryExpr:
		return u.evalUnary(st, x)
	case *ast.BinaryExpr:
		return u.evalBinary(st, x)
	case *ast.StarExpr:
		p := u.eval(st, x.X)
		u.nilOblige(st, exprStr(u.eng.fset, x), p.S, x.Pos())
		pt := p.T.Underlying().(*types.Pointer)
		if isStructVal(pt.Elem()) || isArrayT(pt.Elem()) {
			return scalar(p.S, SInt, pt.Elem())
		}
		return u.loadAt(st, "P$"+typeKey(pt.Elem()), pt.Elem(), p.S)
	case *ast.SelectorExpr:
		return u.evalSelector(st, x)
	case *ast.IndexExpr:
		return u.evalIndex(st, x)
	case *ast.SliceExpr:
		return u.evalSlice(st, x)
	case *ast.CallExpr:
		return u.evalCall(st, x)
	case *ast.CompositeLit:
		return u.evalComposite(st, x, false)
	case *ast.TypeAssertExpr:
		v, _ := u.evalTypeAssert(st, x, false)
		return v
	case *ast.KeyValueExpr:
		return u.eval(st, x.Value)
	}
	u.reject("unsupported expression %T at %s", e, u.where(e.Pos()))
	return u.freshVal("unk", u.typeOf(e))
}

func (u *Unit) evalIdent(st *State, x *ast.Ident) Val {
	o := u.info().ObjectOf(x)
	switch o := o.(type) {
	case *types.Nil:
		T := u.typeOf(x)
		if isSliceT(T) {
			return Val{Kind: KSlice, T: T, Arr: "0", Off: "0", Len: "0", Cap: "0"}
		}
		return scalar("0", SInt, T)
	case *types.Var:
		if bv, boxed := st.ghost["&"+fmt.Sprint(o.Pos())]; boxed && !isStructVal(o.Type()) && !isArrayT(o.Type()) {
			// the variable's address has been taken: its value lives in the cell (writes through the pointer count)
			if cv, ok := st.vars[o]; ok && cv.Closure != nil {
				return cv
			}
			return u.loadAt(st, "P$"+typeKey(o.Type()), o.Type(), bv.S)
		}
		if v, ok := st.vars[o]; ok {
			return v
		}
		if o.Parent() == o.Pkg().Scope() || o.Pkg() != u.pkg.Types {
			return u.globalVar(st, o)
		}
		// variable declared but not yet in store (e.g. captured by closure before definition)
		v := u.freshVal(o.Name(), o.Type())
		st.assume(u.typeAssume(v))
		st.vars[o] = v
		return v
	case *types.Const:
		if v, ok := constToVal(u, o.Val(), o.Type()); ok {
			return v
		}
	case *types.Func:
		return scalar(u.fresh("func."+o.Name(), SInt), SInt, o.Type())
	}
	switch x.Name {
	case "true":
		return boolVal("true")
	case "false":
		return boolVal("false")
	}
	u.reject("unsupported identifier %s at %s", x.Name, u.where(x.Pos()))
	return u.freshVal(x.Name, u.typeOf(x))
}

func (u *Unit) evalUnary(st *State, x *ast.UnaryExpr) Val {
	switch x.Op {
	case token.AND:
		return u.addrOf(st, x.X)
	case token.ARROW:
		// channel receive: unknown value
		u.eval(st, x.X)
		T := u.typeOf(x)
		if tup, ok := T.(*types.Tuple); ok {
			T = tup.At(0).Type()
		}
		v := u.freshVal("recv", T)
		st.assume(u.typeAssume(v))
		return v
	}
	v := u.eval(st, x.X)
	switch x.Op {
	case token.NOT:
		return boolVal(tNot(v.S))
	case token.SUB:
		return scalar("(- "+v.S+")", v.Sort, v.T)
	case token.ADD:
		return v
	case token.XOR:
		if _, _, ok := intRange(v.T); ok {
			_, signed, _ := intModulus(v.T)
			if signed {
				return scalar("(- (- "+v.S+") 1)", SInt, v.T)
			}
			_, hi, _ := intRange(v.T)
			return scalar("(- "+hi+" "+v.S+")", SInt, v.T)
		}
	}
	u.reject("unsupported unary %s", x.Op)
	return u.freshVal("un", u.typeOf(x))
}

func (u *Unit) addrOf(st *State, e ast.Expr) Val {
	T := types.NewPointer(u.typeOf(e))
	switch x := e.(type) {
	case *ast.ParenExpr:
		return u.addrOf(st, x.X)
	case *ast.CompositeLit:
		v := u.evalComposite(st, x, true)
		return scalar(v.S, SInt, T)
	case *ast.Ident:
		v := u.eval(st, x)
		if isStructVal(v.T) || isArrayT(v.T) {
			return scalar(v.S, SInt, T) // boxed: the reference is the address
		}
		// address of a scalar local: box it on the P$ heap (the variable itself is no longer tracked precisely)
		o := u.info().ObjectOf(x)
		if bv, ok := st.ghost["&"+fmt.Sprint(o.Pos())]; ok {
			return scalar(bv.S, SInt, T)
		}
		r := u.alloc(st, "addr."+x.Name)
		u.storeAt(st, "P$"+typeKey(o.Type()), o.Type(), r, u.coerce(st, v, o.Type()))
		st.ghost["&"+fmt.Sprint(o.Pos())] = intVal(r)
		u.note("assumptions", "address-taken scalar local "+x.Name+" modelled as boxed cell; later direct reads of the variable see the cell")
		return scalar(r, SInt, T)
	case *ast.SelectorExpr:
		v := u.eval(st, x)
		if isStructVal(v.T) || isArrayT(v.T) {
			return scalar(v.S, SInt, T)
		}
		if isOpaqueStruct(v.T) {
			return scalar(v.S, SInt, T)
		}
		u.note("abstracted", "address of field "+exprStr(u.eng.fset, x))
		return scalar(u.fresh("addr", SInt), SInt, T)
	case *ast.IndexExpr:
		v := u.eval(st, x)
		if isStructVal(v.T) {
			return scalar(v.S, SInt, T)
		}
	}
	u.note("abstracted", "address-of "+exprStr(u.eng.fset, e))
	r := u.fresh("addr", SInt)
	st.assume(tLt("0", r))
	return scalar(r, SInt, T)
}

func (u *Unit) evalBinary(st *State, x *ast.BinaryExpr) Val {
	switch x.Op {
	case token.LAND, token.LOR:
		a := u.eval(st, x.X)
		g := a.S
		if x.Op == token.LOR {
			g = tNot(a.S)
		}
		u.guards = append(u.guards, g)
		b := u.eval(st, x.Y)
		u.guards = u.guards[:len(u.guards)-1]
		if x.Op == token.LAND {
			return boolVal(tAnd(a.S, b.S))
		}
		return boolVal(tOr(a.S, b.S))
	}
	a := u.eval(st, x.X)
	b := u.eval(st, x.Y)
	return u.arith(st, x.Op, a, b, u.typeOf(x), x)
}

// arith applies a binary operator to two evaluated operands (shared by binary expressions and op-assignments).
func (u *Unit) arith(st *State, op token.Token, a, b Val, T types.Type, x ast.Node) Val {
	switch op {
	case token.EQL, token.NEQ:
		// arrays compare by content
		if at, ok := a.T.Underlying().(*types.Array); ok && a.Kind == KScalar && b.Kind == KScalar && isArrayT(b.T) && at.Len() <= 64 && !isSliceT(at.Elem()) && !isStructVal(at.Elem()) {
			ca := u.elemArray(st, at.Elem(), a.S)
			cb := u.elemArray(st, at.Elem(), b.S)
			var cs []Term
			for i := int64(0); i < at.Len(); i++ {
				cs = append(cs, tEq(tSel(ca, tInt(i)), tSel(cb, tInt(i))))
			}
			t := tAnd(cs...)
			if op == token.NEQ {
				t = tNot(t)
			}
			return boolVal(t)
		}
		// interface/pointer/struct comparisons are reference comparisons in the model
		if a.Kind == KScalar && b.Kind == KScalar && isStructVal(a.T) && isStructVal(b.T) {
			u.note("abstracted", "struct value comparison "+exprStr(u.eng.fset, x))
			return boolVal(u.fresh("structeq", SBool))
		}
	case token.QUO, token.REM:
		if a.Sort == SInt {
			u.oblige(st, "div", exprStr(u.eng.fset, x), tNot(tEq(b.S, "0")), x.Pos())
		}
	case token.SHL, token.SHR:
		if _, ok := isIntLit(b.S); !ok {
			u.note("abstracted", "variable shift "+exprStr(u.eng.fset, x))
			v := u.freshVal("shift", T)
			st.assume(u.typeAssume(v))
			return v
		}
	case token.OR, token.XOR, token.AND_NOT:
		// a<<k | b with b < 2^k, or disjoint-bit or: handled for the literal-flag case
		if op == token.OR {
			if m, ok := isIntLit(b.S); ok && isPow2(m) {
				// set a single bit
				bit := fmt.Sprintf("(mod (div %s %s) 2)", a.S, tInt(m))
				return scalar(fmt.Sprintf("(ite (= %s 1) %s (+ %s %s))", bit, a.S, a.S, tInt(m)), SInt, T)
			}
		}
		if op == token.OR {
			// (x << k) | y with 0 <= y < 2^k is x*2^k + y (big-endian assembly of bytes); the shift is rendered as (* x 2^k)
			shifted := func(t Term) (int64, bool) {
				n := parseSx(t)
				if n == nil || len(n.kids) != 3 || n.kids[0].atom != "*" {
					return 0, false
				}
				if m, ok := isIntLit(n.kids[2].String()); ok && isPow2(m) && m > 1 {
					return m, true
				}
				return 0, false
			}
			hi, lo := a, b
			m, ok := shifted(hi.S)
			if !ok {
				hi, lo = b, a
				m, ok = shifted(hi.S)
			}
			if ok {
				v := u.freshVal("bitop", T)
				st.assume(u.typeAssume(v))
				return scalar(tIte(tAnd(tLe("0", lo.S), tLt(lo.S, tInt(m))), tAdd(hi.S, lo.S), v.S), SInt, T)
			}
		}
		u.note("abstracted", "bit operation "+exprStr(u.eng.fset, x))
		v := u.freshVal("bitop", T)
		st.assume(u.typeAssume(v))
		return v
	case token.AND:
		_, okb := isIntLit(b.S)
		_, oka := isIntLit(a.S)
		if !okb && !oka {
			u.note("abstracted", "bit operation "+exprStr(u.eng.fset, x))
			v := u.freshVal("bitop", T)
			st.assume(u.typeAssume(v))
			return v
		}
	}
	r := u.binop(nil, op, a, b)
	if r.Sort == "?" {
		u.note("abstracted", "operator in "+exprStr(u.eng.fset, x))
		v := u.freshVal("binop", T)
		st.assume(u.typeAssume(v))
		return v
	}
	r.T = T
	// arithmetic on fixed-width unsigned / small types wraps
	if r.Sort == SInt {
		switch op {
		case token.ADD, token.SUB, token.MUL, token.SHL:
			if b, ok := T.Underlying().(*types.Basic); ok && b.Info()&types.IsInteger != 0 {
				switch b.Kind() {
				case types.Int, types.Int64:
					if u.root().contract != nil && u.root().contract.Flags["check_overflow"] != "" {
						lo, hi, _ := intRange(T)
						u.oblige(st, "overflow", exprStr(u.eng.fset, x), tAnd(tLe(lo, r.S), tLe(r.S, hi)), x.Pos())
					} else {
						u.note("assumptions", "int/int64 arithmetic treated as mathematical (no wrap-around)")
					}
				case types.UntypedInt:
				default:
					r = u.convertIntForce(r, T)
				}
			}
		}
	}
	return r
}

// convertIntForce wraps a mathematical result into the range of T.
func (u *Unit) convertIntForce(v Val, T types.Type) Val {
	lo, _, ok := intRange(T)
	if !ok {
		return v
	}
	mod, signed, _ := intModulus(T)
	if !signed {
		return scalar("(mod "+v.S+" "+mod+")", SInt, T)
	}
	return scalar("(+ (mod (- "+v.S+" "+lo+") "+mod+") "+lo+")", SInt, T)
}

func (u *Unit) evalSelector(st *State, x *ast.SelectorExpr) Val {
	if sel, ok := u.info().Selections[x]; ok {
		switch sel.Kind() {
		case types.FieldVal:
			base := u.eval(st, x.X)
			return u.walkFields(st, base, sel.Index(), x)
		case types.MethodVal:
			u.eval(st, x.X)
			u.note("abstracted", "method value "+exprStr(u.eng.fset, x))
			return scalar(u.fresh("methodval", SInt), SInt, u.typeOf(x))
		}
	}
	// package-qualified identifier
	o := u.info().ObjectOf(x.Sel)
	switch o := o.(type) {
	case *types.Var:
		return u.globalVar(st, o)
	case *types.Const:
		if v, ok := constToVal(u, o.Val(), o.Type()); ok {
			return v
		}
	case *types.Func:
		return scalar(u.fresh("func."+o.Name(), SInt), SInt, o.Type())
	}
	u.reject("unsupported selector %s", exprStr(u.eng.fset, x))
	return u.freshVal("sel", u.typeOf(x))
}

func (u *Unit) walkFields(st *State, base Val, index []int, at ast.Node) Val {
	cur := base.T
	ref := base.S
	var v Val
	for k, i := range index {
		if p, ok := cur.Underlying().(*types.Pointer); ok {
			u.nilOblige(st, exprStr(u.eng.fset, at), ref, at.Pos())
			cur = p.Elem()
		}
		s := structOf(cur)
		f := s.Field(i)
		v = u.fieldRead(st, cur, f, ref)
		if k == len(index)-1 {
			return v
		}
		ref = v.S
		cur = f.Type()
	}
	return v
}

func (u *Unit) evalIndex(st *State, x *ast.IndexExpr) Val {
	bt := u.typeOf(x.X)
	if _, isSig := bt.Underlying().(*types.Signature); isSig {
		return u.eval(st, x.X) // generic instantiation
	}
	base := u.eval(st, x.X)
	if mt, ok := bt.Underlying().(*types.Map); ok {
		k := u.eval(st, x.Index)
		v, _ := u.mapLookup(st, mt, base.S, k)
		return v
	}
	idx := u.eval(st, x.Index)
	lbl := exprStr(u.eng.fset, x)
	switch t := bt.Underlying().(type) {
	case *types.Slice:
		u.oblige(st, "bounds", lbl, tAnd(tLe("0", idx.S), tLt(idx.S, base.Len)), x.Pos())
		return u.loadElem(st, t.Elem(), base.Arr, tAdd(base.Off, idx.S))
	case *types.Array:
		u.oblige(st, "bounds", lbl, tAnd(tLe("0", idx.S), tLt(idx.S, tInt(t.Len()))), x.Pos())
		return u.loadElem(st, t.Elem(), base.S, idx.S)
	case *types.Pointer:
		if a, ok := t.Elem().Underlying().(*types.Array); ok {
			u.oblige(st, "bounds", lbl, tAnd(tLe("0", idx.S), tLt(idx.S, tInt(a.Len()))), x.Pos())
			return u.loadElem(st, a.Elem(), base.S, idx.S)
		}
	case *types.Basic:
		if t.Info()&types.IsString != 0 {
			u.oblige(st, "bounds", lbl, tAnd(tLe("0", idx.S), tLt(idx.S, tApp("slen", base.S))), x.Pos())
			v := scalar(tApp("sat", base.S, idx.S), SInt, types.Typ[types.Uint8])
			u.assumeOnce(st, u.typeAssume(v))
			return v
		}
	}
	u.reject("unsupported index expression %s", lbl)
	return u.freshVal("idx", u.typeOf(x))
}

func (u *Unit) evalSlice(st *State, x *ast.SliceExpr) Val {
	base := u.eval(st, x.X)
	bt := u.typeOf(x.X)
	lbl := exprStr(u.eng.fset, x)
	var lo, hi, mx Term = "0", "", ""
	if x.Low != nil {
		lo = u.eval(st, x.Low).S
	}
	if x.High != nil {
		hi = u.eval(st, x.High).S
	}
	if x.Max != nil {
		mx = u.eval(st, x.Max).S
	}
	T := u.typeOf(x)
	switch t := bt.Underlying().(type) {
	case *types.Slice:
		if hi == "" {
			hi = base.Len
		}
		lim := base.Cap
		if mx != "" {
			u.oblige(st, "bounds", lbl, tAnd(tLe("0", lo), tLe(lo, hi), tLe(hi, mx), tLe(mx, base.Cap)), x.Pos())
			lim = mx
		} else {
			u.oblige(st, "bounds", lbl, tAnd(tLe("0", lo), tLe(lo, hi), tLe(hi, base.Cap)), x.Pos())
		}
		return Val{Kind: KSlice, T: T, Arr: base.Arr, Off: tAdd(base.Off, lo), Len: tSub(hi, lo), Cap: tSub(lim, lo)}
	case *types.Basic:
		n := tApp("slen", base.S)
		if hi == "" {
			hi = n
		}
		u.oblige(st, "bounds", lbl, tAnd(tLe("0", lo), tLe(lo, hi), tLe(hi, n)), x.Pos())
		return u.strSub(st, base, lo, hi)
	case *types.Array:
		n := tInt(t.Len())
		return u.sliceArray(st, base.S, n, lo, hi, mx, T, lbl, x)
	case *types.Pointer:
		if a, ok := t.Elem().Underlying().(*types.Array); ok {
			return u.sliceArray(st, base.S, tInt(a.Len()), lo, hi, mx, T, lbl, x)
		}
	}
	u.reject("unsupported slice expression %s", lbl)
	return u.freshVal("slice", T)
}

func (u *Unit) sliceArray(st *State, ref, n, lo, hi, mx Term, T types.Type, lbl string, x ast.Node) Val {
	if hi == "" {
		hi = n
	}
	lim := n
	if mx != "" {
		lim = mx
		u.oblige(st, "bounds", lbl, tAnd(tLe("0", lo), tLe(lo, hi), tLe(hi, mx), tLe(mx, n)), x.Pos())
	} else {
		u.oblige(st, "bounds", lbl, tAnd(tLe("0", lo), tLe(lo, hi), tLe(hi, n)), x.Pos())
	}
	return Val{Kind: KSlice, T: T, Arr: ref, Off: lo, Len: tSub(hi, lo), Cap: tSub(lim, lo)}
}

func (u *Unit) evalComposite(st *State, x *ast.CompositeLit, addr bool) Val {
	T := u.typeOf(x)
	if isTimeTime(T) && len(x.Elts) == 0 && !addr {
		return u.zeroVal(st, T)
	}
	switch t := T.Underlying().(type) {
	case *types.Struct:
		r := u.alloc(st, "new."+typeKey(T))
		u.zeroStruct(st, T, r)
		st.assume(tEq(tApp("dyntype", r), u.typeID(types.NewPointer(T))))
		for i, el := range x.Elts {
			var f *types.Var
			var ve ast.Expr
			if kv, ok := el.(*ast.KeyValueExpr); ok {
				name := kv.Key.(*ast.Ident).Name
				for j := 0; j < t.NumFields(); j++ {
					if t.Field(j).Name() == name {
						f = t.Field(j)
					}
				}
				ve = kv.Value
			} else {
				f = t.Field(i)
				ve = el
			}
			if f == nil {
				u.reject("composite literal field not found")
				continue
			}
			v := u.eval(st, ve)
			u.assignField(st, T, f, r, v)
		}
		return scalar(r, SInt, T)
	case *types.Slice:
		r := u.alloc(st, "slicelit")
		n := int64(0)
		for _, el := range x.Elts {
			ve := el
			if kv, ok := el.(*ast.KeyValueExpr); ok {
				ve = kv.Value
				u.reject("keyed slice literal unsupported")
			}
			v := u.copyVal(st, u.eval(st, ve))
			u.storeElem(st, t.Elem(), r, tInt(n), v)
			n++
		}
		return Val{Kind: KSlice, T: T, Arr: r, Off: "0", Len: tInt(n), Cap: tInt(n)}
	case *types.Array:
		z := u.zeroVal(st, T)
		for i, el := range x.Elts {
			ve := el
			if kv, ok := el.(*ast.KeyValueExpr); ok {
				ve = kv.Value
				u.reject("keyed array literal unsupported")
			}
			v := u.copyVal(st, u.eval(st, ve))
			u.storeElem(st, t.Elem(), z.S, tInt(int64(i)), v)
		}
		return z
	case *types.Map:
		m := u.mapNew(st, t)
		for _, el := range x.Elts {
			kv := el.(*ast.KeyValueExpr)
			k := u.eval(st, kv.Key)
			v := u.copyVal(st, u.eval(st, kv.Value))
			u.mapSet(st, t, m, k, v)
		}
		return scalar(m, SInt, T)
	}
	u.reject("unsupported composite literal of %s", T)
	return u.freshVal("lit", T)
}

func (u *Unit) assignField(st *State, owner types.Type, f *types.Var, ref Term, v Val) {
	ft := f.Type()
	if isOpaqueStruct(ft) {
		return
	}
	if isStructVal(ft) {
		sub := u.fieldRead(st, owner, f, ref)
		u.copyStruct(st, ft, sub.S, v.S)
		return
	}
	if at, ok := ft.Underlying().(*types.Array); ok {
		sub := u.fieldRead(st, owner, f, ref)
		if !isSliceT(at.Elem()) {
			u.setElemArray(st, at.Elem(), sub.S, u.elemArray(st, at.Elem(), v.S))
		}
		return
	}
	v = u.coerce(st, v, ft)
	u.storeAt(st, fieldHeap(owner, f.Name()), ft, ref, v)
}

// coerce adapts a value to the static type it is stored into (boxing into interfaces).
func (u *Unit) coerce(st *State, v Val, to types.Type) Val {
	if to == nil {
		return v
	}
	if _, isIface := to.Underlying().(*types.Interface); isIface {
		return u.toIface(st, v, to)
	}
	if isSliceT(to) && v.Kind == KScalar {
		// nil
		return Val{Kind: KSlice, T: to, Arr: "0", Off: "0", Len: "0", Cap: "0"}
	}
	if v.Kind == KScalar && v.Sort == SInt && sortOf(to) == SReal {
		return scalar("(to_real "+v.S+")", SReal, to)
	}
	if v.Kind == KScalar && v.T != nil && isUntyped(v.T) {
		v.T = to
	}
	if v.Kind == KSlice && isSliceT(to) {
		v.T = to
	}
	return v
}

// toIface boxes non-reference values; reference values keep their identity.
func (u *Unit) toIface(st *State, v Val, to types.Type) Val {
	if v.T == nil {
		return v
	}
	if _, isTP := types.Unalias(v.T).(*types.TypeParam); isTP {
		// a value of type-parameter type: some non-interface value of the instantiation's type - an opaque box whose
		// dynamic type is left open (a type switch on it may take any case)
		b := u.alloc(st, "box.typeparam")
		return scalar(b, SInt, to)
	}
	if _, ok := v.T.Underlying().(*types.Interface); ok {
		return scalar(v.S, SInt, to)
	}
	if b, ok := v.T.(*types.Basic); ok && b.Kind() == types.UntypedNil {
		return scalar("0", SInt, to)
	}
	switch v.T.Underlying().(type) {
	case *types.Pointer:
		// a typed nil pointer in an interface is non-nil in Go; we assume pointers stored in interfaces are non-nil or compared consistently
		u.assumeOnce(st, tImp(tNot(tEq(v.S, "0")), tEq(tApp("dyntype", v.S), u.typeID(v.T))))
		return scalar(v.S, SInt, to)
	case *types.Map, *types.Chan, *types.Signature:
		u.assumeOnce(st, tImp(tNot(tEq(v.S, "0")), tEq(tApp("dyntype", v.S), u.typeID(v.T))))
		return scalar(v.S, SInt, to)
	}
	// box
	T := v.T
	if isUntyped(T) {
		T = types.Default(T)
	}
	b := u.alloc(st, "box."+typeKey(T))
	if _, isTP := types.Unalias(T).(*types.TypeParam); !isTP {
		// (a value of type-parameter type has the dynamic type of whatever the instantiation is: left open)
		st.assume(tEq(tApp("dyntype", b), u.typeID(T)))
	}
	if v.Kind == KSlice {
		u.storeAt(st, "BX$"+typeKey(T), T, b, v)
	} else if isStructVal(T) || isArrayT(T) {
		c := u.copyVal(st, v)
		u.storeAt(st, "BX$"+typeKey(T), types.Typ[types.Int], b, scalar(c.S, SInt, types.Typ[types.Int]))
	} else {
		u.storeAt(st, "BX$"+typeKey(T), T, b, v)
	}
	return scalar(b, SInt, to)
}

func (u *Unit) unbox(st *State, ref Term, T types.Type) Val {
	switch T.Underlying().(type) {
	case *types.Pointer, *types.Map, *types.Chan, *types.Signature, *types.Interface:
		return scalar(ref, SInt, T)
	}
	if isStructVal(T) || isArrayT(T) {
		v := u.loadAt(st, "BX$"+typeKey(T), types.Typ[types.Int], ref)
		return scalar(v.S, SInt, T)
	}
	return u.loadAt(st, "BX$"+typeKey(T), T, ref)
}

func (u *Unit) evalTypeAssert(st *State, x *ast.TypeAssertExpr, commaOk bool) (Val, Term) {
	v := u.eval(st, x.X)
	T := u.typeOf(x.Type)
	if tup, ok := u.typeOf(x).(*types.Tuple); ok {
		_ = tup
	}
	ok := u.hasDynType(st, v.S, T)
	if !commaOk {
		lbl := exprStr(u.eng.fset, x)
		if sub := u.root().contract.Flags["assume_typeassert"]; sub != "" && strings.Contains(lbl, sub) {
			// declared in the contract: this single-value type assertion is assumed to succeed (listed as an assumption)
			u.note("assumptions", "type assertion assumed to succeed (flag assume_typeassert): "+lbl)
			st.assume(ok)
		} else {
			u.oblige(st, "typeassert", lbl, ok, x.Pos())
		}
		return u.unbox(st, v.S, T), ok
	}
	res := u.unbox(st, v.S, T)
	// zero value when the assertion fails
	if res.Kind == KScalar {
		z := u.zeroValPure(T)
		if z != "" {
			res.S = tIte(ok, res.S, z)
		}
	} else if res.Kind == KSlice {
		res = Val{Kind: KSlice, T: res.T, Arr: tIte(ok, res.Arr, "0"), Off: tIte(ok, res.Off, "0"), Len: tIte(ok, res.Len, "0"), Cap: tIte(ok, res.Cap, "0")}
	}
	return res, ok
}

func (u *Unit) hasDynType(st *State, ref Term, T types.Type) Term {
	if it, isIface := T.Underlying().(*types.Interface); isIface {
		if it.Empty() {
			return tNot(tEq(ref, "0"))
		}
		fn := smtName("implements$" + typeKey(T))
		if n, ok := T.(*types.Named); ok {
			fn = smtName("implements$" + typeKey(n))
		}
		u.decls.declFun(fn, []string{SInt}, SBool)
		return tAnd(tNot(tEq(ref, "0")), tApp(fn, tApp("dyntype", ref)))
	}
	return tAnd(tNot(tEq(ref, "0")), tEq(tApp("dyntype", ref), u.typeID(T)))
}


// nilOblige: nil-dereference obligations are generated only for functions whose contract asks for them
// (flag nilcheck); elsewhere "no nil dereference" is an assumption listed in the evidence.
func (u *Unit) nilOblige(st *State, label string, ref Term, pos token.Pos) {
	if u.root().flag("nilcheck") {
		u.oblige(st, "nil", label, tNot(tEq(ref, "0")), pos)
		return
	}
	u.note("assumptions", "nil dereferences are not checked in "+u.root().name+" (no nilcheck flag)")
}
