package main

import (
	"fmt"
	"go/ast"
	"go/token"
	"go/types"
	"os"
	"path/filepath"
	"sort"
	"strings"

	"golang.org/x/tools/go/packages"
)

type Engine struct {
	addrTakenSet map[*packages.Package]map[types.Object]bool
	fset     *token.FileSet
	pkgs     map[string]*packages.Package // by path
	cs       *ContractSet
	declOf   map[string]*ast.FuncDecl
	declPkg  map[string]*packages.Package
	funcObj  map[string]*types.Func
	captured map[string][]*ast.Ident // closure units: one use of each variable the function literal captures
	repo     string
	specsDir string
	verbose  bool
	props    map[string][]string // contract resolved key -> property ids
}

const contractFile = "zz_verif_contracts.go"

// findContractDirs lists package dirs (relative import paths) under repo that carry contract files.
func findContractDirs(repo string) []string {
	var dirs []string
	filepath.Walk(filepath.Join(repo, "internal"), func(p string, info os.FileInfo, err error) error {
		if err == nil && !info.IsDir() && info.Name() == contractFile {
			rel, _ := filepath.Rel(repo, filepath.Dir(p))
			dirs = append(dirs, "./"+rel)
		}
		return nil
	})
	sort.Strings(dirs)
	return dirs
}

func newEngine(repo, specsDir string) *Engine {
	return &Engine{repo: repo, specsDir: specsDir, pkgs: map[string]*packages.Package{}, cs: newContractSet(),
		declOf: map[string]*ast.FuncDecl{}, declPkg: map[string]*packages.Package{}, funcObj: map[string]*types.Func{}, props: map[string][]string{}}
}

func (e *Engine) load(patterns []string) error {
	e.fset = token.NewFileSet()
	cfg := &packages.Config{
		Mode: packages.NeedName | packages.NeedFiles | packages.NeedSyntax | packages.NeedTypes | packages.NeedTypesInfo |
			packages.NeedImports | packages.NeedCompiledGoFiles | packages.NeedDeps,
		Dir:        e.repo,
		Fset:       e.fset,
		BuildFlags: []string{"-tags=verif", "-mod=mod"},
		Env:        append(os.Environ(), "GOFLAGS=-mod=mod", "GOPROXY=off"),
	}
	// NeedDeps with NeedSyntax would type-check the world from source; restrict syntax to module packages.
	cfg.Mode = packages.NeedName | packages.NeedFiles | packages.NeedSyntax | packages.NeedTypes | packages.NeedTypesInfo | packages.NeedImports | packages.NeedCompiledGoFiles
	pkgs, err := packages.Load(cfg, patterns...)
	if err != nil {
		return err
	}
	for _, p := range pkgs {
		if len(p.Errors) > 0 {
			return fmt.Errorf("package %s: %v", p.PkgPath, p.Errors[0])
		}
		e.pkgs[p.PkgPath] = p
		for _, f := range p.Syntax {
			for _, d := range f.Decls {
				fd, ok := d.(*ast.FuncDecl)
				if !ok {
					continue
				}
				if fo, ok := p.TypesInfo.Defs[fd.Name].(*types.Func); ok {
					k := funcKey(fo)
					e.declOf[k] = fd
					e.declPkg[k] = p
					e.funcObj[k] = fo
				}
			}
		}
		for _, gf := range p.CompiledGoFiles {
			if filepath.Base(gf) == contractFile {
				e.cs.parseContractFile(gf, p.PkgPath)
			}
		}
	}
	return nil
}

func (e *Engine) loadSpecs() {
	files, _ := filepath.Glob(filepath.Join(e.specsDir, "*.gocv"))
	sort.Strings(files)
	for _, f := range files {
		e.cs.parseContractFile(f, "")
	}
}

// index resolves raw contracts to function keys.
func (e *Engine) index() {
	for _, c := range e.cs.Raw {
		k := resolveKey(c.Key, c.PkgPath)
		if _, dup := e.cs.Funcs[k]; dup {
			e.cs.Errors = append(e.cs.Errors, fmt.Sprintf("%s: duplicate contract for %s", c.Where, k))
		}
		e.cs.Funcs[k] = c
		if p := c.Flags["props"]; p != "" {
			e.props[k] = strings.Fields(strings.ReplaceAll(p, ",", " "))
		}
	}
}

func (e *Engine) contractFor(key string) *Contract { return e.cs.Funcs[key] }

// ioFallback: any method Read/Write with the io.Reader/io.Writer signature that has no contract of its own
// is assumed to satisfy the io contract (that is what the interface documents).
func (e *Engine) ioFallback(fn *types.Func) *Contract {
	sig := fn.Type().(*types.Signature)
	if sig.Recv() == nil || sig.Params().Len() != 1 || sig.Results().Len() != 2 {
		return nil
	}
	if !isSliceT(sig.Params().At(0).Type()) || sortOf(sig.Results().At(0).Type()) != SInt || !isErrorType(sig.Results().At(1).Type()) {
		return nil
	}
	if fn.Pkg() != nil && strings.HasPrefix(fn.Pkg().Path(), "tunnox-core/") {
		if _, isIface := sig.Recv().Type().Underlying().(*types.Interface); !isIface {
			return nil // concrete in-module implementations must carry their own contract
		}
	}
	switch fn.Name() {
	case "Read":
		return e.cs.Funcs["(io.Reader).Read"]
	case "Write":
		return e.cs.Funcs["(io.Writer).Write"]
	}
	return nil
}

func (e *Engine) findDecl(fn *types.Func) (*ast.FuncDecl, *packages.Package) {
	k := funcKey(fn)
	return e.declOf[k], e.declPkg[k]
}

// inlinable: loop-free, closure-free, small.
func (e *Engine) inlinable(fd *ast.FuncDecl) bool {
	if fd.Body == nil {
		return false
	}
	ok := true
	n := 0
	ast.Inspect(fd.Body, func(x ast.Node) bool {
		switch x.(type) {
		case *ast.ForStmt, *ast.RangeStmt, *ast.GoStmt, *ast.SelectStmt:
			ok = false
		case ast.Stmt:
			n++
		}
		return ok
	})
	return ok && n <= 40
}

func (e *Engine) importedPkg(pkg *types.Package, name string) *types.Package {
	if pkg == nil {
		return nil
	}
	for _, imp := range pkg.Imports() {
		if imp.Name() == name {
			return imp
		}
	}
	// import aliases: look through the syntax of the package
	if p := e.pkgs[pkg.Path()]; p != nil {
		for _, f := range p.Syntax {
			for _, is := range f.Imports {
				if is.Name != nil && is.Name.Name == name {
					path := strings.Trim(is.Path.Value, `"`)
					for _, imp := range pkg.Imports() {
						if imp.Path() == path {
							return imp
						}
					}
				}
			}
		}
	}
	// external spec files: any loaded package or its imports with that name
	for _, p := range e.pkgs {
		if p.Types.Name() == name {
			return p.Types
		}
		for _, imp := range p.Types.Imports() {
			if imp.Name() == name {
				return imp
			}
		}
	}
	return nil
}

func (e *Engine) pkgTypes(path string, fallback *types.Package) *types.Package {
	if p := e.pkgs[path]; p != nil {
		return p.Types
	}
	return fallback
}

func (e *Engine) lookupTypeAnywhere(ty string) types.Type {
	ptr := false
	if strings.HasPrefix(ty, "*") {
		ptr = true
		ty = ty[1:]
	}
	i := strings.LastIndex(ty, ".")
	if i < 0 {
		return nil
	}
	pn, tn := ty[:i], ty[i+1:]
	if path := e.aliasPath(pn); path != "" {
		pn = path // an import alias used by some loaded file (coreerrors -> tunnox-core/internal/core/errors)
	}
	for _, p := range e.pkgs {
		cands := append([]*types.Package{p.Types}, p.Types.Imports()...)
		for _, c := range cands {
			if c.Name() == pn || c.Path() == pn {
				if o := c.Scope().Lookup(tn); o != nil {
					if _, ok := o.(*types.TypeName); ok {
						if ptr {
							return types.NewPointer(o.Type())
						}
						return o.Type()
					}
				}
			}
		}
	}
	return nil
}

func (e *Engine) sizeofElem(T types.Type) int64 {
	sz := types.SizesFor("gc", "amd64")
	return sz.Sizeof(T)
}

// ---- verification of one function ----

func (e *Engine) verify(key string, c *Contract) *Unit {
	if i := strings.LastIndex(key, "@"); i > 0 && e.declOf[key] == nil && e.declOf[key[:i]] != nil {
		// variant contract: same function, own unit
		e.declOf[key], e.declPkg[key], e.funcObj[key] = e.declOf[key[:i]], e.declPkg[key[:i]], e.funcObj[key[:i]]
	}
	fd := e.declOf[key]
	p := e.declPkg[key]
	u := &Unit{eng: e, name: shortFuncName(key), contract: c, decls: baseDecls(), heapSort: map[string]string{}, strLits: map[string]Term{}, assumed: map[string]bool{}, inputs: map[string]Term{}}
	if fd == nil || fd.Body == nil {
		u.rejected = "function not found in the loaded packages (renamed or removed?)"
		return u
	}
	fn := e.funcObj[key]
	u.pkg = p
	u.fnObj = fn
	u.sig = fn.Type().(*types.Signature)
	u.body = fd.Body
	u.ftype = fd.Type
	u.recv = fd.Recv
	// loop and closure ordinals
	u.loopOrd = map[ast.Node]int{}
	u.cloOrd = map[*ast.FuncLit]int{}
	nl, nc := 0, 0
	ast.Inspect(fd.Body, func(x ast.Node) bool {
		switch y := x.(type) {
		case *ast.ForStmt, *ast.RangeStmt:
			nl++
			u.loopOrd[x] = nl
		case *ast.FuncLit:
			nc++
			u.cloOrd[y] = nc
		}
		return true
	})
	for ord := range c.Loops {
		if ord < 1 || ord > nl {
			u.rejected = fmt.Sprintf("contract names loop %d but the function has %d loops", ord, nl)
			return u
		}
	}
	defer func() {
		if r := recover(); r != nil {
			if se, ok := r.(specError); ok {
				u.reject("contract error: %s", se.msg)
				return
			}
			panic(r)
		}
	}()
	st := &State{vars: map[types.Object]Val{}, heap: map[string]Term{}, held: map[string]bool{}, ghost: map[string]Val{}}
	st.frontier = u.fresh("frontier", SInt)
	st.assume(tLt("0", st.frontier))
	u.root().frontier0 = st.frontier
	u.clockTerm(st) // one ghost clock shared by all paths
	env := &specEnv{u: u, st: st, vars: map[string]Val{}, pkg: p.Types, where: c.Where}
	bindParam := func(id *ast.Ident, T types.Type, i int) {
		v := u.freshVal(id.Name, T)
		st.assume(u.typeAssume(v))
		u.assumeRefBelowFrontier(st, v)
		if isStructVal(T) || isArrayT(T) {
			st.assume(tLt(v.S, st.frontier))
		}
		if o := p.TypesInfo.ObjectOf(id); o != nil && id.Name != "_" {
			st.vars[o] = v
			env.vars[id.Name] = v
		}
		if i >= 0 {
			env.vars[fmt.Sprintf("arg%d", i)] = v
		}
		cs, _ := v.components()
		names := []string{""}
		if v.Kind == KSlice {
			names = []string{".arr", ".off", ".len", ".cap"}
		}
		for k, ct := range cs {
			u.inputs[id.Name+names[k]] = ct
		}
	}
	if fd.Recv != nil && len(fd.Recv.List) > 0 {
		rT := u.sig.Recv().Type()
		if len(fd.Recv.List[0].Names) > 0 {
			bindParam(fd.Recv.List[0].Names[0], rT, -1)
			env.vars["self"] = env.vars[fd.Recv.List[0].Names[0].Name]
		} else {
			v := u.freshVal("self", rT)
			st.assume(u.typeAssume(v))
			env.vars["self"] = v
		}
		if _, isPtr := rT.Underlying().(*types.Pointer); isPtr {
			// a method is called on a non-nil receiver unless the contract says otherwise
			if c.Flags["nil_receiver"] == "" {
				st.assume(tLt("0", env.vars["self"].S))
			}
			st.assume(tEq(tApp("dyntype", env.vars["self"].S), u.typeID(rT)))
		}
	}
	i := 0
	if fd.Type.Params != nil {
		for _, f := range fd.Type.Params.List {
			if len(f.Names) == 0 {
				i++
				continue
			}
			for _, n := range f.Names {
				bindParam(n, p.TypesInfo.ObjectOf(n).Type(), i)
				i++
			}
		}
	}
	// closure unit: the variables the function literal captures are inputs (arbitrary values of their types, subject to
	// the closure contract's requires) - by the time the literal runs the enclosing function may have moved on
	for _, id := range e.captured[key] {
		bindParam(id, p.TypesInfo.ObjectOf(id).Type(), -1)
	}
	fr := &frame{sig: u.sig, ftype: fd.Type}
	if fd.Type.Results != nil {
		for _, f := range fd.Type.Results.List {
			if len(f.Names) == 0 {
				fr.resObjs = append(fr.resObjs, nil)
				continue
			}
			for _, n := range f.Names {
				o := p.TypesInfo.ObjectOf(n)
				fr.resObjs = append(fr.resObjs, o)
			}
		}
	}
	for len(fr.resObjs) < u.sig.Results().Len() {
		fr.resObjs = append(fr.resObjs, nil)
	}
	u.specEnv0 = env
	// global axioms (facts about ghost state that no modelled operation changes), assumed of the entry state
	for _, ax := range e.cs.Axioms {
		aenv := &specEnv{u: u, st: st, vars: map[string]Val{}, pkg: e.pkgTypes(ax.PkgPath, p.Types), where: ax.Where}
		t, err := u.specBool(aenv, ax.Clause)
		if err != nil {
			u.reject("axiom error: %v", err)
			return u
		}
		st.assume(t)
	}
	for _, l := range c.Lets {
		v, err := u.specVal(env, l)
		if err != nil {
			u.reject("contract error: %v", err)
			return u
		}
		env.vars[l.Label] = v
	}
	for _, r := range c.Requires {
		t, err := u.specBool(env, r)
		if err != nil {
			u.reject("contract error: %v", err)
			return u
		}
		st.assume(t)
	}
	if strings.Contains(" "+c.Flags["held"]+" ", " ") && c.Flags["held"] != "" {
		// lock held at entry: nothing to do, checkGuarded consults the flag
	}
	u.cover(st, "entry", fd.Pos())
	u.entry = st.fork()
	st.old = u.entry
	// named results are zero-initialised after the entry snapshot (their storage is new)
	for _, o := range fr.resObjs {
		if o != nil {
			st.vars[o] = u.zeroVal(st, o.Type())
		}
	}
	frames[u] = nil
	u.pushFrame(fr)
	f := u.execBlock([]*State{st}, fd.Body.List)
	for _, s := range f.normal {
		var vals []Val
		for i := 0; i < u.sig.Results().Len(); i++ {
			if fr.resObjs[i] != nil {
				vals = append(vals, s.vars[fr.resObjs[i]])
			} else {
				vals = append(vals, u.zeroVal(s, u.sig.Results().At(i).Type()))
			}
		}
		u.finishReturn(s, vals)
	}
	u.popFrame()
	delete(frames, u)
	u.buildReplayTemplate(key, env, c)
	// postconditions at every return
	for ri, r := range fr.returns {
		penv := &specEnv{u: u, st: r.st, old: r.st.old, vars: map[string]Val{}, pkg: p.Types, where: c.Where}
		for k, v := range env.vars {
			penv.vars[k] = v
		}
		res := Val{Kind: KTuple, Elems: r.vals}
		if len(r.vals) == 1 {
			res = r.vals[0]
		}
		u.bindResults(penv, c, u.sig, res)
		// ghost definitions: the function's modifies clause names the ghost locations; they take their defined values here
		if len(c.GhostEns) > 0 {
			genv := &specEnv{u: u, st: r.st, old: r.st.old, vars: penv.vars, pkg: p.Types, where: c.Where}
			for _, m := range c.Modifies {
				if ce, ok := m.Expr.(*ast.CallExpr); ok {
					defined := false
					if id, ok := ce.Fun.(*ast.Ident); ok {
						for _, ge := range c.GhostEns {
							if strings.Contains(ge.Text, id.Name+"(") {
								defined = true
							}
						}
					}
					if id, ok := ce.Fun.(*ast.Ident); ok && defined && e.cs.Ghosts[id.Name] != nil && strings.HasPrefix(id.Name, "g_") {
						if err := u.havocTarget(r.st, genv, m); err != nil {
							u.reject("contract error: %v", err)
						}
					}
				}
			}
			for _, ge := range c.GhostEns {
				t, err := u.specBool(penv, ge)
				if err != nil {
					u.reject("contract error: %v", err)
					continue
				}
				r.st.assume(t)
			}
			u.note("assumptions", "ghost definitions (ghost_ensures, assumed not checked) of "+key)
		}
		u.cover(r.st, "ret", fd.Pos()) // aggregated: at least one return path must be reachable
		for i, en := range c.Ensures {
			t, err := u.specBool(penv, en)
			if err != nil {
				u.reject("contract error: %v", err)
				continue
			}
			// vacuity of the clause itself: for  A ==> B  some return must be able to satisfy A (aggregated over returns)
			if n := parseSx(t); os.Getenv("GOCV_PREMISE_COVERS") != "" && n != nil && len(n.kids) == 3 && n.kids[0].kids == nil && n.kids[0].atom == "=>" {
				cs := r.st.fork()
				cs.assume(n.kids[1].String())
				u.cover(cs, fmt.Sprintf("premise:%d", i+1), fd.Pos())
			}
			// split  A ==> (B && C)  into one obligation per conjunct: finer names, smaller queries
			parts := splitGoal(t)
			for pi, pt := range parts {
				lbl := fmt.Sprint(i + 1)
				if len(parts) > 1 {
					lbl = fmt.Sprintf("%d.%d", i+1, pi+1)
				}
				u.oblige(r.st, "post", lbl, pt, fd.Pos())
				u.obls[len(u.obls)-1].Where = c.Ensures[i].Where + " (return path " + fmt.Sprint(ri+1) + ": " + strings.Join(r.st.trace, ",") + ")"
			}
		}
		for i, cv := range c.Covers {
			t, err := u.specBool(penv, cv)
			if err != nil {
				u.reject("contract error: %v", err)
				continue
			}
			cs := r.st.fork()
			cs.assume(t)
			u.cover(cs, fmt.Sprintf("user%d@ret%d", i+1, ri+1), fd.Pos())
		}
		// frame obligations: every heap that differs from the entry state must be covered by modifies
		// (relative to the linearisation snapshot: entry state, or the state right after the first lock acquisition)
		base := r.st.old
		if base == nil {
			base = u.entry
		}
		allowed := map[string][]modTarget{}
		allowAll := false
		{
			menv := &specEnv{u: u, st: base, old: base, vars: penv.vars, pkg: p.Types, where: c.Where}
			for _, m := range c.Modifies {
				ts, err := u.modTargets(base, menv, m)
				if err != nil {
					u.reject("contract error: %v", err)
					continue
				}
				for _, t := range ts {
					if t.heap == "*" {
						allowAll = true
					}
					allowed[t.heap] = append(allowed[t.heap], t)
				}
			}
		}
		frontier0 := base.frontier
		if os.Getenv("GOCV_DEBUG_FRAME") != "" {
			fmt.Fprintf(os.Stderr, "frame %s: allowed=%v\n", u.name, sortedKeys(allowed))
		}
		if !allowAll && c.Flags["noframe"] == "" {
			for _, hn := range sortedKeys(r.st.heap) {
				cur := r.st.heap[hn]
				sort := u.heapSort[hn]
				ent, ok := base.heap[hn]
				if !ok {
					ent = smtName(hn) + "!0"
					u.decls.declConst(ent, sort)
				}
				if cur == ent || !strings.HasPrefix(sort, "(Array Int ") {
					continue
				}
				if strings.HasPrefix(hn, "P$") || strings.HasPrefix(hn, "BX$") || hn == "G$lastfv" {
					continue // boxed locals / interface boxes are private to the function; lastfv() is bookkeeping of the engine
				}
				if ig := c.Flags["frame_ignore"]; ig != "" {
					skip := false
					for _, sub := range strings.Fields(ig) {
						if strings.Contains(hn, sub) {
							skip = true
						}
					}
					if skip {
						u.note("assumptions", "frame of heap "+hn+" not checked in "+u.name+" (declared scratch storage)")
						continue
					}
				}
				whole := false
				var excl []Term
				var wins []modTarget
				for _, t := range allowed[hn] {
					if t.idx == "" {
						whole = true
					} else if t.win != nil {
						wins = append(wins, t)
					} else {
						excl = append(excl, tNot(tEq("r!qf", t.idx)))
					}
				}
				if whole {
					continue
				}
				for _, w := range wins {
					excl = append(excl, tNot(tEq("r!qf", w.idx)))
				}
				goal := fmt.Sprintf("(forall ((r!qf Int)) (=> %s (= (select %s r!qf) (select %s r!qf))))", tAnd(append([]Term{isOld("r!qf", frontier0)}, excl...)...), cur, ent)
				u.oblige(r.st, "frame", hn, goal, fd.Pos())
				u.obls[len(u.obls)-1].Where = fmt.Sprintf("%s (heap %s changed; return path %d: %s)", c.Where, hn, ri+1, strings.Join(r.st.trace, ","))
				for _, w := range wins {
					g2 := fmt.Sprintf("(forall ((i!qf Int)) (=> (or (< i!qf %s) (>= i!qf (+ %s %s))) (= (select (select %s %s) i!qf) (select (select %s %s) i!qf))))", w.win.Off, w.win.Off, w.win.Len, cur, w.idx, ent, w.idx)
					u.oblige(r.st, "frame", hn+"-window", g2, fd.Pos())
				}
			}
		}
		for k := range r.st.held {
			if !strings.HasSuffix(k, "#r") {
				u.oblige(r.st, "lock-released", k, "false", fd.Pos())
			}
		}
	}
	if len(fr.returns) == 0 && u.rejected == "" {
		u.note("assumptions", "no return path reached (function never returns normally under its precondition)")
	}
	// spawn rule: the callee of the k-th go statement is verified as its own unit, from an arbitrary state
	// (only lock invariants are known when it finally runs), against the parent's `spawn k ensures` clauses.
	if len(c.Spawns) > 0 {
		k := 0
		ast.Inspect(fd.Body, func(x ast.Node) bool {
			g, ok := x.(*ast.GoStmt)
			if !ok {
				return true
			}
			k++
			cls := c.Spawns[k]
			if len(cls) == 0 {
				return true
			}
			old := u.pkg
			callee := u.calleeFunc(g.Call)
			u.pkg = old
			if callee == nil {
				u.reject("spawn %d: callee is not a named function or method", k)
				return true
			}
			ck := funcKey(callee)
			syn := &Contract{Key: ck, PkgPath: c.PkgPath, Where: cls[0].Where, Ensures: cls, Loops: map[int]*LoopSpec{}, Closures: map[int]*Contract{}, Flags: map[string]string{"noframe": "true"}}
			for fk, fv := range c.Flags {
				if fk == "frozen_clock" {
					syn.Flags[fk] = fv
				}
			}
			if own := e.cs.Funcs[ck]; own != nil {
				syn.Loops = own.Loops
			}
			su := e.verify(ck, syn)
			if su.rejected != "" {
				u.reject("spawn %d (%s): %s", k, shortFuncName(ck), su.rejected)
				return true
			}
			for _, o := range su.obls {
				o.Name = fmt.Sprintf("%s#spawn:%d.%s", u.name, k, strings.SplitN(o.Name, "#", 2)[1])
				o.Func = u.name
			}
			u.spawnUnits = append(u.spawnUnits, su)
			u.note("assumptions", fmt.Sprintf("spawn rule: go %s verified from an arbitrary state (lock invariants only)", shortFuncName(ck)))
			return true
		})
	}
	return u
}

// splitGoal turns (=> A (and B C ...)) / (and B C ...) into separate goals.
func splitGoal(t Term) []Term {
	n := parseSx(t)
	if n == nil || n.kids == nil || len(n.kids) == 0 || n.kids[0].kids != nil {
		return []Term{t}
	}
	switch n.kids[0].atom {
	case "and":
		var out []Term
		for _, k := range n.kids[1:] {
			out = append(out, splitGoal(k.String())...)
		}
		return out
	case "=>":
		if len(n.kids) == 3 {
			var out []Term
			for _, c := range splitGoal(n.kids[2].String()) {
				out = append(out, tImp(n.kids[1].String(), c))
			}
			return out
		}
	}
	return []Term{t}
}

// callSiteUnit: one obligation per call site of function `key`: the enclosing function must be under a contract that
// requires the ghost fact `need` (textually: "need(").
func (e *Engine) callSiteUnit(key, need string) *Unit {
	u := &Unit{eng: e, name: shortFuncName(key), decls: baseDecls(), heapSort: map[string]string{}, strLits: map[string]Term{}, assumed: map[string]bool{}, inputs: map[string]Term{}}
	n := 0
	for _, pth := range sortedKeys(e.pkgs) {
		p := e.pkgs[pth]
		for _, f := range p.Syntax {
			fname := e.fset.Position(f.Pos()).Filename
			if strings.HasSuffix(fname, "_test.go") {
				continue
			}
			for _, d := range f.Decls {
				fd, ok := d.(*ast.FuncDecl)
				if !ok || fd.Body == nil {
					continue
				}
				fo, _ := p.TypesInfo.Defs[fd.Name].(*types.Func)
				if fo == nil {
					continue
				}
				encl := funcKey(fo)
				ast.Inspect(fd.Body, func(x ast.Node) bool {
					call, ok := x.(*ast.CallExpr)
					if !ok {
						return true
					}
					var id *ast.Ident
					switch fn := ast.Unparen(call.Fun).(type) {
					case *ast.Ident:
						id = fn
					case *ast.SelectorExpr:
						id = fn.Sel
					}
					if id == nil {
						return true
					}
					callee, ok := p.TypesInfo.ObjectOf(id).(*types.Func)
					if !ok || funcKey(callee) != key {
						return true
					}
					n++
					good := false
					if kc := e.cs.Funcs[key]; kc != nil {
						for _, a := range strings.Fields(kc.Flags["callers_allow"]) {
							if strings.HasSuffix(encl, "."+a) || strings.HasSuffix(encl, ")."+a) {
								good = true
								u.note("assumptions", "call of "+u.name+" from "+shortFuncName(encl)+" is exempt from the "+need+" requirement (declared server-internal caller)")
							}
						}
					}
					if c := e.cs.Funcs[encl]; c != nil {
						for _, r := range c.Requires {
							if strings.Contains(r.Text, need+"(") {
								good = true
							}
						}
					}
					goal := "false"
					if good {
						goal = "true"
					}
					pos := e.fset.Position(call.Pos())
					u.obls = append(u.obls, &Obligation{Name: fmt.Sprintf("%s#callsite:%s", u.name, shortFuncName(encl)), Kind: "callsite", Func: u.name, Goal: goal,
						Where: fmt.Sprintf("%s:%d (call of %s inside %s, which must be under a contract requiring %s)", pos.Filename, pos.Line, u.name, shortFuncName(encl), need), Expect: "unsat"})
					return true
				})
			}
		}
	}
	if n == 0 {
		u.note("assumptions", "no call site of "+u.name+" found in the loaded packages")
	}
	return u
}

// prepareClosure registers the k-th function literal of the function `parent` as a verification unit of its own
// under the key parent$k (ordinals as in `closure k` clauses: source order of all function literals in the body).
func (e *Engine) prepareClosure(parent string, k int) (string, error) {
	key := fmt.Sprintf("%s$%d", parent, k)
	if e.declOf[key] != nil {
		return key, nil
	}
	fd := e.declOf[parent]
	p := e.declPkg[parent]
	if fd == nil || fd.Body == nil {
		return key, fmt.Errorf("function %s not found", parent)
	}
	var lit *ast.FuncLit
	n := 0
	ast.Inspect(fd.Body, func(x ast.Node) bool {
		if l, ok := x.(*ast.FuncLit); ok {
			n++
			if n == k {
				lit = l
			}
		}
		return true
	})
	if lit == nil {
		return key, fmt.Errorf("%s has %d function literals, contract names closure %d", parent, n, k)
	}
	sig, _ := p.TypesInfo.TypeOf(lit).(*types.Signature)
	if sig == nil {
		return key, fmt.Errorf("closure %d of %s: no signature", k, parent)
	}
	name := fmt.Sprintf("%s$%d", fd.Name.Name, k)
	synth := &ast.FuncDecl{Name: &ast.Ident{Name: name, NamePos: lit.Pos()}, Type: lit.Type, Body: lit.Body}
	e.declOf[key] = synth
	e.declPkg[key] = p
	e.funcObj[key] = types.NewFunc(lit.Pos(), p.Types, name, sig)
	if e.captured == nil {
		e.captured = map[string][]*ast.Ident{}
	}
	seen := map[types.Object]bool{}
	ast.Inspect(lit.Body, func(x ast.Node) bool {
		id, ok := x.(*ast.Ident)
		if !ok {
			return true
		}
		o, ok := p.TypesInfo.Uses[id].(*types.Var)
		if !ok || o.IsField() || seen[o] {
			return true
		}
		if o.Pos() >= fd.Pos() && o.Pos() < fd.End() && !(o.Pos() >= lit.Pos() && o.Pos() < lit.End()) {
			seen[o] = true
			e.captured[key] = append(e.captured[key], id)
		}
		return true
	})
	// the other variables of the enclosing function that are in scope at the literal are bound too (arbitrary values):
	// a closure contract may name them even when the literal does not (any longer) use them
	var extra []*ast.Ident
	for id, o := range p.TypesInfo.Defs {
		v, ok := o.(*types.Var)
		if !ok || v.IsField() || seen[v] || id.Name == "_" {
			continue
		}
		if v.Pos() >= fd.Pos() && v.Pos() < lit.Pos() && v.Parent() != nil && v.Parent().Contains(lit.Pos()) {
			seen[v] = true
			extra = append(extra, id)
		}
	}
	sort.Slice(extra, func(i, j int) bool { return extra[i].Pos() < extra[j].Pos() })
	e.captured[key] = append(e.captured[key], extra...)
	return key, nil
}

// aliasPath: the import path some loaded file binds to the local name `name` (import aliases are file-scoped, so
// types.Eval at package scope does not see them).
func (e *Engine) aliasPath(name string) string {
	for _, p := range e.pkgs {
		for _, f := range p.Syntax {
			for _, im := range f.Imports {
				if im.Name != nil && im.Name.Name == name {
					return strings.Trim(im.Path.Value, "\"")
				}
			}
		}
	}
	return ""
}

// addrTaken: o is a local variable (not a field, not package-level) whose address is taken by an `&o` expression
// somewhere in its package's source.
func (e *Engine) addrTaken(p *packages.Package, o types.Object) bool {
	if p == nil || o == nil {
		return false
	}
	if e.addrTakenSet == nil {
		e.addrTakenSet = map[*packages.Package]map[types.Object]bool{}
	}
	set, ok := e.addrTakenSet[p]
	if !ok {
		set = map[types.Object]bool{}
		for _, f := range p.Syntax {
			ast.Inspect(f, func(n ast.Node) bool {
				ue, ok := n.(*ast.UnaryExpr)
				if !ok || ue.Op != token.AND {
					return true
				}
				if id, ok := ast.Unparen(ue.X).(*ast.Ident); ok {
					if v, ok := p.TypesInfo.Uses[id].(*types.Var); ok && !v.IsField() && v.Parent() != p.Types.Scope() {
						set[v] = true
					}
				}
				return true
			})
		}
		e.addrTakenSet[p] = set
	}
	return set[o]
}
