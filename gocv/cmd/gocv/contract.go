package main

import (
	"fmt"
	"go/ast"
	"go/parser"
	"os"
	"regexp"
	"strconv"
	"strings"
)

type Clause struct {
	Text  string
	Expr  ast.Expr
	Label string
	Where string // file:line
}

type PointClause struct {
	Assume bool
	Clause
}

type LoopSpec struct {
	Invariants []Clause
	Decreases  *Clause
}

type Contract struct {
	Key      string // as written after "func"
	PkgPath  string // package the contract file belongs to ("" for external specs)
	Where    string
	Results  []string
	Params   []string // declared parameter names (positional), optional
	Lets     []Clause // Label = name
	Requires []Clause
	Ensures  []Clause
	ProgEns  []Clause // progress assumptions: available to termination (dec) obligations only
	GhostEns []Clause // ghost definitions: assumed at call sites and at the function's own returns, never checked
	Modifies []Clause
	Loops    map[int]*LoopSpec
	Closures map[int]*Contract // contracts of function literals (ordinal within the function)
	Spawns   map[int][]Clause      // spawn k ensures ...: what the k-th go statement's callee must guarantee from ANY state
	Points   map[int][]PointClause // in-body assume/assert at verifPoint(k) marker calls
	Trusted  bool              // assumed, body not verified
	Inline   bool
	Flags    map[string]string
	Covers   []Clause
	Asserts  map[string][]Clause // label -> ghost assertions at //verif:label? (unused)
	Used     bool
}

type SpecParam struct {
	Name string
	Type string
}

type SpecFunc struct {
	Name    string
	Params  []SpecParam
	Ret     string
	Body    ast.Expr
	BodyTxt string
	PkgPath string
	Where   string
	Rec     bool
}

type GhostField struct {
	Name   string
	Params []SpecParam
	Ret    string
}

type LockSpec struct {
	Type    string // type name (package-local)
	Mu      string
	Guards  []string
	Inv     *Clause
	PkgPath string
}

type Axiom struct {
	Clause
	PkgPath string
}

type ContractSet struct {
	Funcs  map[string]*Contract // key: resolved full name
	Specs  map[string]*SpecFunc
	Ghosts map[string]*GhostField
	Locks  []*LockSpec
	Axioms []Axiom
	Errors []string
	Raw    []*Contract
}

func newContractSet() *ContractSet {
	return &ContractSet{Funcs: map[string]*Contract{}, Specs: map[string]*SpecFunc{}, Ghosts: map[string]*GhostField{}}
}

var clauseKeywords = map[string]bool{
	"requires": true, "ensures": true, "modifies": true, "loop": true, "trusted": true, "let": true,
	"inline": true, "flag": true, "cover": true, "closure": true, "returns": true, "ghost_ensures": true, "point": true, "progress_ensures": true, "spawn": true,
}

// parseContractFile reads //@ lines. pkgPath is the package owning the file ("" = external spec file).
func (cs *ContractSet) parseContractFile(path, pkgPath string) {
	data, err := os.ReadFile(path)
	if err != nil {
		cs.Errors = append(cs.Errors, err.Error())
		return
	}
	type line struct {
		txt string
		no  int
	}
	var lines []line
	for i, l := range strings.Split(string(data), "\n") {
		t := strings.TrimSpace(l)
		if !strings.HasPrefix(t, "//@") {
			continue
		}
		t = strings.TrimPrefix(t, "//@")
		if i := strings.Index(t, " //"); i >= 0 && !strings.Contains(t[i:], "\"") {
			t = t[:i]
		}
		if strings.TrimSpace(t) == "" {
			continue
		}
		lines = append(lines, line{t, i + 1})
	}
	// join continuation lines: a line whose first word is not a keyword / top-level word continues the previous one
	top := map[string]bool{"func": true, "spec": true, "ghost": true, "lock": true, "axiom": true}
	var joined []line
	for _, l := range lines {
		w := firstWord(l.txt)
		if top[w] || clauseKeywords[w] || len(joined) == 0 {
			joined = append(joined, l)
		} else {
			joined[len(joined)-1].txt += " " + strings.TrimSpace(l.txt)
		}
	}
	var cur *Contract
	var curClosure *Contract
	errf := func(no int, f string, a ...any) {
		cs.Errors = append(cs.Errors, fmt.Sprintf("%s:%d: %s", path, no, fmt.Sprintf(f, a...)))
	}
	for _, l := range joined {
		where := fmt.Sprintf("%s:%d", path, l.no)
		txt := strings.TrimSpace(l.txt)
		w := firstWord(txt)
		rest := strings.TrimSpace(strings.TrimPrefix(txt, w))
		mk := func(s string) Clause {
			e, err := parseSpecExpr(s)
			if err != nil {
				errf(l.no, "cannot parse %q: %v", s, err)
			}
			return Clause{Text: s, Expr: e, Where: where}
		}
		target := cur
		if curClosure != nil {
			target = curClosure
		}
		switch w {
		case "func":
			key := rest
			var results []string
			var params []string
			if i := strings.Index(key, " params "); i >= 0 {
				ps := key[i+8:]
				if j := strings.Index(ps, ")"); j >= 0 {
					for _, x := range strings.Split(strings.Trim(strings.TrimSpace(ps[:j+1]), "()"), ",") {
						params = append(params, strings.TrimSpace(x))
					}
					rest = key[:i] + ps[j+1:]
					key = rest
				}
			}
			if i := strings.Index(rest, " returns "); i >= 0 {
				key = strings.TrimSpace(rest[:i])
				r := strings.TrimSpace(rest[i+9:])
				r = strings.Trim(r, "()")
				for _, x := range strings.Split(r, ",") {
					results = append(results, strings.TrimSpace(x))
				}
			}
			cur = &Contract{Key: strings.TrimSpace(key), PkgPath: pkgPath, Where: where, Results: results, Params: params, Loops: map[int]*LoopSpec{}, Closures: map[int]*Contract{}, Flags: map[string]string{}}
			curClosure = nil
			cs.Raw = append(cs.Raw, cur)
		case "closure":
			if cur == nil {
				errf(l.no, "closure outside func")
				continue
			}
			n, err := strconv.Atoi(firstWord(rest))
			if err != nil {
				errf(l.no, "closure needs ordinal")
				continue
			}
			curClosure = &Contract{Key: fmt.Sprintf("%s$%d", cur.Key, n), PkgPath: pkgPath, Where: where, Loops: map[int]*LoopSpec{}, Closures: map[int]*Contract{}, Flags: map[string]string{}}
			cur.Closures[n] = curClosure
		case "spec":
			sf, err := parseSpecFunc(rest)
			if err != nil {
				errf(l.no, "%v", err)
				continue
			}
			sf.PkgPath = pkgPath
			sf.Where = where
			cs.Specs[sf.Name] = sf
		case "ghost":
			g, err := parseGhost(rest)
			if err != nil {
				errf(l.no, "%v", err)
				continue
			}
			cs.Ghosts[g.Name] = g
		case "lock":
			// lock T.mu guards a, b invariant E
			m := regexp.MustCompile(`^(\w+)\.(\w+)\s+guards\s+(.*?)(?:\s+invariant\s+(.*))?$`).FindStringSubmatch(rest)
			if m == nil {
				errf(l.no, "bad lock clause")
				continue
			}
			ls := &LockSpec{Type: m[1], Mu: m[2], PkgPath: pkgPath}
			for _, g := range strings.Split(m[3], ",") {
				if g = strings.TrimSpace(g); g != "" {
					ls.Guards = append(ls.Guards, g)
				}
			}
			if m[4] != "" {
				c := mk(m[4])
				ls.Inv = &c
			}
			cs.Locks = append(cs.Locks, ls)
		case "axiom":
			cs.Axioms = append(cs.Axioms, Axiom{mk(rest), pkgPath})
		default:
			if target == nil {
				errf(l.no, "clause %q outside func", w)
				continue
			}
			switch w {
			case "requires":
				target.Requires = append(target.Requires, mk(rest))
			case "ensures":
				target.Ensures = append(target.Ensures, mk(rest))
			case "ghost_ensures":
				target.GhostEns = append(target.GhostEns, mk(rest))
			case "progress_ensures":
				target.ProgEns = append(target.ProgEns, mk(rest))
			case "spawn":
				f := strings.Fields(rest)
				if len(f) < 3 || f[1] != "ensures" {
					errf(l.no, "bad spawn clause (spawn <k> ensures <expr>)")
					continue
				}
				k, err := strconv.Atoi(f[0])
				if err != nil {
					errf(l.no, "spawn ordinal")
					continue
				}
				body := strings.TrimSpace(strings.TrimPrefix(strings.TrimSpace(strings.TrimPrefix(rest, f[0])), f[1]))
				if target.Spawns == nil {
					target.Spawns = map[int][]Clause{}
				}
				target.Spawns[k] = append(target.Spawns[k], mk(body))
			case "point":
				f := strings.Fields(rest)
				if len(f) < 3 || (f[1] != "assume" && f[1] != "assert") {
					errf(l.no, "bad point clause (point <k> assume|assert <expr>)")
					continue
				}
				k, err := strconv.Atoi(f[0])
				if err != nil {
					errf(l.no, "point ordinal")
					continue
				}
				body := strings.TrimSpace(strings.TrimPrefix(strings.TrimSpace(strings.TrimPrefix(rest, f[0])), f[1]))
				if target.Points == nil {
					target.Points = map[int][]PointClause{}
				}
				target.Points[k] = append(target.Points[k], PointClause{f[1] == "assume", mk(body)})
			case "cover":
				target.Covers = append(target.Covers, mk(rest))
			case "modifies":
				for _, p := range splitTop(rest, ',') {
					target.Modifies = append(target.Modifies, mk(strings.TrimSpace(p)))
				}
			case "let":
				i := strings.Index(rest, "=")
				if i < 0 {
					errf(l.no, "bad let")
					continue
				}
				c := mk(strings.TrimSpace(rest[i+1:]))
				c.Label = strings.TrimSpace(rest[:i])
				target.Lets = append(target.Lets, c)
			case "trusted":
				target.Trusted = true
			case "inline":
				target.Inline = true
			case "flag":
				f := strings.Fields(rest)
				if len(f) == 1 {
					target.Flags[f[0]] = "true"
				} else if len(f) >= 2 {
					target.Flags[f[0]] = strings.Join(f[1:], " ")
				}
			case "loop":
				f := strings.Fields(rest)
				if len(f) < 3 {
					errf(l.no, "bad loop clause")
					continue
				}
				n, err := strconv.Atoi(f[0])
				if err != nil {
					errf(l.no, "loop ordinal")
					continue
				}
				ls := target.Loops[n]
				if ls == nil {
					ls = &LoopSpec{}
					target.Loops[n] = ls
				}
				body := strings.TrimSpace(strings.TrimPrefix(strings.TrimSpace(strings.TrimPrefix(rest, f[0])), f[1]))
				switch f[1] {
				case "invariant":
					ls.Invariants = append(ls.Invariants, mk(body))
				case "decreases":
					c := mk(body)
					ls.Decreases = &c
				default:
					errf(l.no, "bad loop clause kind %q", f[1])
				}
			default:
				errf(l.no, "unknown clause %q", w)
			}
		}
	}
}

func firstWord(s string) string {
	s = strings.TrimSpace(s)
	for i, r := range s {
		if r == ' ' || r == '\t' {
			return s[:i]
		}
	}
	return s
}

func parseParams(s string) ([]SpecParam, error) {
	var ps []SpecParam
	s = strings.TrimSpace(s)
	if s == "" {
		return nil, nil
	}
	var pendingNames []string
	for _, p := range splitTop(s, ',') {
		p = strings.TrimSpace(p)
		i := strings.IndexAny(p, " \t")
		if i < 0 {
			pendingNames = append(pendingNames, p)
			continue
		}
		ty := strings.TrimSpace(p[i+1:])
		for _, n := range pendingNames {
			ps = append(ps, SpecParam{n, ty})
		}
		pendingNames = nil
		ps = append(ps, SpecParam{p[:i], ty})
	}
	if len(pendingNames) > 0 {
		return nil, fmt.Errorf("parameters without type: %v", pendingNames)
	}
	return ps, nil
}

// spec func name(params) ret [= body]
func parseSpecFunc(rest string) (*SpecFunc, error) {
	rest = strings.TrimSpace(rest)
	rec := false
	if strings.HasPrefix(rest, "rec ") {
		rec = true
		rest = strings.TrimSpace(rest[4:])
	}
	if !strings.HasPrefix(rest, "func ") {
		return nil, fmt.Errorf("spec: expected func")
	}
	rest = strings.TrimSpace(rest[5:])
	i := strings.Index(rest, "(")
	if i < 0 {
		return nil, fmt.Errorf("spec func: no params")
	}
	name := strings.TrimSpace(rest[:i])
	j := matchParen(rest, i)
	if j < 0 {
		return nil, fmt.Errorf("spec func: unbalanced")
	}
	ps, err := parseParams(rest[i+1 : j])
	if err != nil {
		return nil, err
	}
	after := strings.TrimSpace(rest[j+1:])
	ret := after
	body := ""
	if k := strings.Index(after, "="); k >= 0 && !strings.HasPrefix(after[k:], "==") {
		ret = strings.TrimSpace(after[:k])
		body = strings.TrimSpace(after[k+1:])
	}
	sf := &SpecFunc{Name: name, Params: ps, Ret: ret, BodyTxt: body, Rec: rec}
	if body != "" {
		e, err := parseSpecExpr(body)
		if err != nil {
			return nil, fmt.Errorf("spec func %s body: %v", name, err)
		}
		sf.Body = e
	}
	return sf, nil
}

// ghost name(params) ret
func parseGhost(rest string) (*GhostField, error) {
	i := strings.Index(rest, "(")
	if i < 0 {
		return nil, fmt.Errorf("ghost: no params")
	}
	j := matchParen(rest, i)
	if j < 0 {
		return nil, fmt.Errorf("ghost: unbalanced")
	}
	ps, err := parseParams(rest[i+1 : j])
	if err != nil {
		return nil, err
	}
	return &GhostField{Name: strings.TrimSpace(rest[:i]), Params: ps, Ret: strings.TrimSpace(rest[j+1:])}, nil
}

func matchParen(s string, i int) int {
	d := 0
	for k := i; k < len(s); k++ {
		switch s[k] {
		case '(', '[', '{':
			d++
		case ')', ']', '}':
			d--
			if d == 0 {
				return k
			}
		}
	}
	return -1
}

// splitTop splits s at top-level occurrences of sep (not inside brackets or string literals).
func splitTop(s string, sep byte) []string {
	var out []string
	d := 0
	start := 0
	inStr := byte(0)
	for i := 0; i < len(s); i++ {
		c := s[i]
		if inStr != 0 {
			if c == '\\' {
				i++
			} else if c == inStr {
				inStr = 0
			}
			continue
		}
		switch c {
		case '"', '\'', '`':
			inStr = c
		case '(', '[', '{':
			d++
		case ')', ']', '}':
			d--
		default:
			if c == sep && d == 0 {
				out = append(out, s[start:i])
				start = i + 1
			}
		}
	}
	out = append(out, s[start:])
	return out
}

// indexTop finds the first top-level occurrence of tok.
func indexTop(s, tok string) int {
	d := 0
	inStr := byte(0)
	for i := 0; i < len(s); i++ {
		c := s[i]
		if inStr != 0 {
			if c == '\\' {
				i++
			} else if c == inStr {
				inStr = 0
			}
			continue
		}
		switch c {
		case '"', '\'', '`':
			inStr = c
		case '(', '[', '{':
			d++
		case ')', ']', '}':
			d--
		}
		if d == 0 && strings.HasPrefix(s[i:], tok) {
			return i
		}
	}
	return -1
}

// convSpec rewrites the spec-only syntax (==>, <==>, forall/exists) into Go call syntax.
func convSpec(s string) string {
	s = strings.TrimSpace(s)
	if strings.HasPrefix(s, "forall ") || strings.HasPrefix(s, "exists ") {
		q := s[:6]
		i := indexTop(s, "::")
		if i > 0 {
			binders := strings.TrimSpace(s[7:i])
			return fmt.Sprintf("__%s(%s, %s)", q, strconv.Quote(binders), convSpec(s[i+2:]))
		}
	}
	if i := indexTop(s, "<==>"); i >= 0 {
		return "__iff(" + convSpec(s[:i]) + ", " + convSpec(s[i+4:]) + ")"
	}
	if i := indexTop(s, "==>"); i >= 0 {
		return "__imp(" + convSpec(s[:i]) + ", " + convSpec(s[i+3:]) + ")"
	}
	// recurse into bracket groups
	var b strings.Builder
	inStr := byte(0)
	for i := 0; i < len(s); i++ {
		c := s[i]
		if inStr != 0 {
			b.WriteByte(c)
			if c == '\\' && i+1 < len(s) {
				i++
				b.WriteByte(s[i])
			} else if c == inStr {
				inStr = 0
			}
			continue
		}
		switch c {
		case '"', '\'', '`':
			inStr = c
			b.WriteByte(c)
		case '(', '[':
			j := matchParen(s, i)
			if j < 0 {
				b.WriteString(s[i:])
				return b.String()
			}
			inner := s[i+1 : j]
			b.WriteByte(c)
			if strings.Contains(inner, "==>") || strings.Contains(inner, "forall ") || strings.Contains(inner, "exists ") {
				parts := splitTop(inner, ',')
				for k, p := range parts {
					if k > 0 {
						b.WriteString(", ")
					}
					b.WriteString(convSpec(p))
				}
			} else {
				b.WriteString(inner)
			}
			b.WriteByte(s[j])
			i = j
		default:
			b.WriteByte(c)
		}
	}
	return b.String()
}

func parseSpecExpr(s string) (ast.Expr, error) {
	c := convSpec(s)
	e, err := parser.ParseExpr(c)
	if err != nil {
		return nil, fmt.Errorf("%v (after rewriting to %q)", err, c)
	}
	return e, nil
}
