package main

import (
	"fmt"
	"go/ast"
	"go/token"
	"go/types"
	"regexp"
	"strings"
)

// callee resolution -------------------------------------------------------

func (u *Unit) calleeFunc(call *ast.CallExpr) *types.Func {
	fun := ast.Unparen(call.Fun)
	switch f := fun.(type) {
	case *ast.Ident:
		if fn, ok := u.info().ObjectOf(f).(*types.Func); ok {
			return fn
		}
	case *ast.SelectorExpr:
		if fn, ok := u.info().ObjectOf(f.Sel).(*types.Func); ok {
			return fn
		}
	case *ast.IndexExpr:
		if id, ok := f.X.(*ast.Ident); ok {
			if fn, ok := u.info().ObjectOf(id).(*types.Func); ok {
				return fn
			}
		}
		if se, ok := f.X.(*ast.SelectorExpr); ok {
			if fn, ok := u.info().ObjectOf(se.Sel).(*types.Func); ok {
				return fn
			}
		}
	}
	return nil
}

func funcKey(fn *types.Func) string {
	if o := fn.Origin(); o != nil {
		fn = o
	}
	return fn.FullName()
}

var reLocalMethod = regexp.MustCompile(`^\(\s*(?:(\w+)\s+)?(\*?)(\w+(?:\[[\w, ]+\])?)\s*\)\s*\.?\s*(\w+)$`)

// resolveKey turns a contract key as written into the types.Func full name.
func resolveKey(key, pkgPath string) string {
	key = strings.TrimSpace(key)
	// "name@variant": a second contract for the same function, verified as a unit of its own (never used at call sites)
	if i := strings.LastIndex(key, "@"); i > 0 && !strings.Contains(key[i:], "/") && !strings.HasPrefix(key[i:], "@/") {
		return resolveKey(key[:i], pkgPath) + key[i:]
	}
	key = strings.ReplaceAll(key, "@/", "tunnox-core/internal/")
	if pkgPath == "" {
		return key
	}
	if m := reLocalMethod.FindStringSubmatch(key); m != nil && !strings.Contains(key, "/") && !strings.Contains(m[3], ".") {
		return "(" + m[2] + pkgPath + "." + m[3] + ")." + m[4]
	}
	if !strings.ContainsAny(key, "./()") {
		return pkgPath + "." + key
	}
	return key
}

var dropMethodNames = map[string]bool{"Debugf": true, "Infof": true, "Warnf": true, "Errorf": true, "Debug": true, "Info": true, "Warn": true, "Error": true, "Fatalf": false, "Printf": true, "Println": true, "Tracef": true}

func (u *Unit) isDroppedCall(fn *types.Func) bool {
	if fn.Pkg() == nil {
		return false
	}
	p := fn.Pkg().Path()
	if p == "tunnox-core/internal/core/log" || p == "log" || p == "github.com/sirupsen/logrus" {
		return true
	}
	if p == "tunnox-core/internal/core/dispose" && dropMethodNames[fn.Name()] && fn.Type().(*types.Signature).Recv() == nil {
		return true
	}
	if p == "tunnox-core/internal/utils" && dropMethodNames[fn.Name()] {
		return true
	}
	return false
}

// evalCall --------------------------------------------------------------

func (u *Unit) evalCall(st *State, call *ast.CallExpr) Val {
	fun := ast.Unparen(call.Fun)
	// conversion
	if tv, ok := u.info().Types[fun]; ok && tv.IsType() {
		return u.evalConversion(st, call, tv.Type)
	}
	// builtin
	if id, ok := fun.(*ast.Ident); ok {
		if _, isB := u.info().ObjectOf(id).(*types.Builtin); isB {
			return u.evalBuiltin(st, call, id.Name)
		}
	}
	// immediately-invoked function literal
	if lit, ok := fun.(*ast.FuncLit); ok {
		var args []Val
		for _, a := range call.Args {
			args = append(args, u.eval(st, a))
		}
		return u.inlineBody(st, lit.Type, lit.Body, nil, nil, args, u.typeOf(lit).(*types.Signature), "closure")
	}
	fn := u.calleeFunc(call)
	if fn != nil && fn.Name() == "verifPoint" && len(call.Args) == 1 {
		u.verifPoint(st, call)
		return Val{Kind: KTuple}
	}
	if fn == nil {
		// a package-level variable initialised with a function (`var NewX = pkg.NewX`) and never reassigned
		if alias := u.funcAlias(fun); alias != nil {
			fn = alias
			u.note("assumptions", "package variable "+exprStr(u.eng.fset, fun)+" is treated as the function it is initialised with ("+funcKey(alias)+")")
		}
	}
	if fn == nil {
		// call through a function value
		fv := u.eval(st, fun)
		var args []Val
		for _, a := range call.Args {
			args = append(args, u.eval(st, a))
		}
		if fv.Closure != nil {
			sig := u.typeOf(fv.Closure.lit).(*types.Signature)
			return u.inlineBody(st, fv.Closure.lit.Type, fv.Closure.lit.Body, nil, nil, args, sig, "closure")
		}
		sig, _ := u.typeOf(fun).Underlying().(*types.Signature)
		u.note("abstracted", "call through function value "+exprStr(u.eng.fset, fun))
		u.setHeap(st, "G$lastfv", sArr(SInt, SInt), tStore(u.heapTerm(st, "G$lastfv", sArr(SInt, SInt)), "0", fv.S)) // spec: lastfv() - the function value most recently called
		return u.havocResults(st, sig, "fv")
	}
	sig := fn.Type().(*types.Signature)
	// receiver
	var recv *Val
	if sig.Recv() != nil {
		if se, ok := fun.(*ast.SelectorExpr); ok {
			if sel, ok := u.info().Selections[se]; ok {
				base := u.eval(st, se.X)
				idx := sel.Index()
				if len(idx) > 1 {
					base = u.walkFields(st, base, idx[:len(idx)-1], se)
				} else if _, wantPtr := sig.Recv().Type().Underlying().(*types.Pointer); wantPtr && base.T != nil {
					if _, isPtr := base.T.Underlying().(*types.Pointer); !isPtr && !isStructVal(base.T) && !isArrayT(base.T) {
						base = u.addrOf(st, se.X)
					}
				}
				recv = &base
			}
		}
		if recv == nil {
			// method expression T.M(recv, ...) — unsupported
			u.note("abstracted", "method expression "+exprStr(u.eng.fset, fun))
			return u.havocResults(st, sig, fn.Name())
		}
	}
	// arguments
	var args []Val
	if len(call.Args) == 1 && sig.Params().Len() > 1 {
		// f(g()) with multi-value g
		tv := u.eval(st, call.Args[0])
		if tv.Kind == KTuple {
			args = tv.Elems
		} else {
			args = []Val{tv}
		}
	} else {
		for _, a := range call.Args {
			args = append(args, u.eval(st, a))
		}
	}
	if call.Ellipsis == token.NoPos && sig.Variadic() {
		// pack variadic args into a slice
		n := sig.Params().Len() - 1
		if len(args) >= n {
			vt := sig.Params().At(n).Type()
			rest := args[n:]
			packed := u.packSlice(st, vt, rest)
			args = append(args[:n:n], packed)
		}
	}
	for i := range args {
		if i < sig.Params().Len() {
			pt := sig.Params().At(i).Type()
			if sig.Variadic() && i == sig.Params().Len()-1 {
				continue
			}
			if _, isTP := pt.(*types.TypeParam); isTP {
				continue
			}
			args[i] = u.coerce(st, args[i], pt)
		}
	}
	return u.dispatchCall(st, call, fn, recv, args)
}

func (u *Unit) packSlice(st *State, T types.Type, vs []Val) Val {
	if len(vs) == 0 {
		return Val{Kind: KSlice, T: T, Arr: "0", Off: "0", Len: "0", Cap: "0"}
	}
	r := u.alloc(st, "varargs")
	el := T.Underlying().(*types.Slice).Elem()
	for i, v := range vs {
		v = u.coerce(st, v, el)
		if v.Kind == KScalar && v.Sort != sortOf(el) {
			continue
		}
		u.storeElem(st, el, r, tInt(int64(i)), v)
	}
	n := tInt(int64(len(vs)))
	return Val{Kind: KSlice, T: T, Arr: r, Off: "0", Len: n, Cap: n}
}

func (u *Unit) havocResults(st *State, sig *types.Signature, prefix string) Val {
	if sig == nil || sig.Results().Len() == 0 {
		return Val{Kind: KTuple}
	}
	if sig.Results().Len() == 1 {
		v := u.freshVal(prefix+".ret", sig.Results().At(0).Type())
		st.assume(u.typeAssume(v))
		u.assumeRefBelowFrontier(st, v)
		return v
	}
	v := u.freshVal(prefix+".ret", sig.Results())
	st.assume(u.typeAssume(v))
	for _, e := range v.Elems {
		u.assumeRefBelowFrontier(st, e)
	}
	return v
}

func (u *Unit) assumeRefBelowFrontier(st *State, v Val) {
	if v.Kind == KSlice {
		st.assume(tLt(v.Arr, st.frontier))
		return
	}
	if v.Kind != KScalar || v.Sort != SInt || v.T == nil {
		return
	}
	switch v.T.Underlying().(type) {
	case *types.Pointer, *types.Map, *types.Interface, *types.Chan, *types.Signature:
		st.assume(tLt(v.S, st.frontier))
	}
}

func (u *Unit) dispatchCall(st *State, call *ast.CallExpr, fn *types.Func, recv *Val, args []Val) Val {
	sig := fn.Type().(*types.Signature)
	key := funcKey(fn)
	if v, ok := u.builtinModel(st, call, fn, key, recv, args); ok {
		return v
	}
	c := u.eng.contractFor(key)
	if c == nil && recv != nil && recv.T != nil {
		// a method promoted from an embedded interface (DataForwarder embeds io.Closer): a contract may be attached to
		// the static receiver interface instead
		if n, ok := types.Unalias(recv.T).(*types.Named); ok && n.Obj().Pkg() != nil {
			if _, isI := n.Underlying().(*types.Interface); isI {
				if c2 := u.eng.contractFor("(" + n.Obj().Pkg().Path() + "." + n.Obj().Name() + ")." + fn.Name()); c2 != nil {
					c = c2
					key = "(" + n.Obj().Pkg().Path() + "." + n.Obj().Name() + ")." + fn.Name()
				}
			}
		}
	}
	if c == nil {
		c = u.eng.ioFallback(fn)
	}
	if c != nil {
		c.Used = true
		return u.callContract(st, c, fn, recv, args, call.Pos(), exprStr(u.eng.fset, call.Fun))
	}
	if u.isDroppedCall(fn) {
		u.note("dropped", key)
		return u.havocResults(st, sig, fn.Name())
	}
	// inline small in-module functions
	if fd, pk := u.eng.findDecl(fn); fd != nil && fd.Body != nil && u.inlining < 3 && u.eng.inlinable(fd) {
		u.note("inlined", key)
		old := u.pkg
		oldFile := u.curFile
		u.pkg = pk
		v := u.inlineBody(st, fd.Type, fd.Body, fd.Recv, recv, args, sig, fn.Name())
		u.pkg = old
		u.curFile = oldFile
		return v
	}
	u.note("abstracted", key)
	// an uncontracted function that by its name reads into a buffer (io.ReadAtLeast, rand.Read, binary.Read ...): the
	// contents of its byte-slice arguments are arbitrary afterwards (everything else about an abstracted call - no
	// effect on modelled state - remains an assumption listed in the evidence)
	if strings.HasPrefix(fn.Name(), "Read") || fn.Name() == "Decode" {
		for _, a := range args {
			if a.Kind == KSlice && a.T != nil {
				if sl, ok := a.T.Underlying().(*types.Slice); ok {
					if _, isB := sl.Elem().Underlying().(*types.Basic); isB {
						name, sort := u.elemHeapName(sl.Elem())
						if sort != "" {
							h := u.heapTerm(st, name, sort)
							u.logWrite(st, name, a.Arr)
							u.setHeap(st, name, sort, tStore(h, a.Arr, u.fresh("abstracted.content", arrayElemSort(sort))))
						}
					}
				}
			}
		}
	}
	return u.havocResults(st, sig, fn.Name())
}

// callContract: assert pre, havoc modifies, assume post.
func (u *Unit) callContract(st *State, c *Contract, fn *types.Func, recv *Val, args []Val, pos token.Pos, label string) Val {
	sig := fn.Type().(*types.Signature)
	if rc := u.root().contract; rc != nil && rc.Flags["interference"] != "" {
		// `flag interference g1 g2`: between any two of this function's operations other callers may have acted on the
		// shared state these ghosts describe - it is arbitrary again before every call made through a contract
		ienv := &specEnv{u: u, st: st, vars: map[string]Val{}, pkg: u.pkg.Types}
		for _, g := range strings.Fields(rc.Flags["interference"]) {
			u.havocNamed(st, ienv, g)
		}
	}
	env := u.contractEnv(st, st, c, fn, sig, recv, args) // in the pre-state old(e) is e
	short := shortFuncName(funcKey(fn))
	// lets (pre-state)
	for _, l := range c.Lets {
		v, err := u.specVal(env, l)
		if err != nil {
			u.reject("contract error: %v", err)
			continue
		}
		env.vars[l.Label] = v
	}
	for i, r := range c.Requires {
		t, err := u.specBool(env, r)
		if err != nil {
			u.reject("contract error: %v", err)
			continue
		}
		u.oblige(st, "pre", fmt.Sprintf("%s:%d@%s", short, i+1, u.seqLabel("pre:"+short, pos)), t, pos)
		st.assume(t)
	}
	old := st.fork()
	// the callee may allocate: the frontier moves (needed by fresh() and by-value results)
	nf := u.fresh("frontier", SInt)
	st.assume(tLe(st.frontier, nf))
	st.frontier = nf
	// havoc modifies
	for _, m := range c.Modifies {
		if err := u.havocTarget(st, env, m); err != nil {
			u.reject("contract error: %v", err)
		}
	}
	// results
	res := u.havocResults(st, sig, fn.Name())
	{
		rvs := []Val{res}
		if res.Kind == KTuple {
			rvs = res.Elems
		}
		for _, rv := range rvs {
			if rv.Kind == KScalar && (isStructVal(rv.T) || isArrayT(rv.T)) && !isOpaqueStruct(rv.T) {
				// values returned by value are private copies
				st.assume(tAnd(tLe(old.frontier, rv.S), tLt(rv.S, st.frontier)))
			}
		}
	}
	penv := u.contractEnv(st, old, c, fn, sig, recv, args)
	for k, v := range env.vars {
		if _, ok := penv.vars[k]; !ok {
			penv.vars[k] = v
		}
	}
	u.bindResults(penv, c, sig, res)
	for _, e := range append(append([]Clause{}, c.Ensures...), c.GhostEns...) {
		t, err := u.specBool(penv, e)
		if err != nil {
			u.reject("contract error: %v", err)
			continue
		}
		st.assume(t)
	}
	for _, e := range c.ProgEns {
		t, err := u.specBool(penv, e)
		if err != nil {
			u.reject("contract error: %v", err)
			continue
		}
		st.decPC = append(st.decPC, t)
		u.note("assumptions", "termination measures assume progress of "+funcKey(fn)+": "+e.Text)
	}
	if len(c.GhostEns) > 0 {
		u.note("assumptions", "ghost definitions (ghost_ensures, assumed not checked) of "+funcKey(fn))
	}
	// vacuity canary (aggregated over all call sites of this callee): assuming the contract must leave some call reachable
	if u.root().inlining == 0 || true {
		u.cover(st, "after:"+short, pos)
	}
	if c.Trusted {
		u.note("trusted", funcKey(fn))
	}
	return res
}

func (u *Unit) seqLabel(k string, pos token.Pos) string {
	r := u.root()
	if r.kindSeq == nil {
		r.kindSeq = map[string]int{}
	}
	key := fmt.Sprintf("%s@%d", k, pos)
	if n, ok := r.kindSeq[key]; ok {
		return fmt.Sprint(n)
	}
	r.kindSeq["#"+k]++
	r.kindSeq[key] = r.kindSeq["#"+k]
	return fmt.Sprint(r.kindSeq[key])
}

func shortFuncName(key string) string {
	key = strings.ReplaceAll(key, "tunnox-core/internal/", "")
	if i := strings.LastIndex(key, "/"); i >= 0 {
		pre := key[:i]
		// keep a leading "(" or "(*"
		lead := ""
		for _, p := range []string{"(*", "("} {
			if strings.HasPrefix(pre, p) {
				lead = p
				break
			}
		}
		key = lead + key[i+1:]
	}
	return key
}

func (u *Unit) contractEnv(st, old *State, c *Contract, fn *types.Func, sig *types.Signature, recv *Val, args []Val) *specEnv {
	env := &specEnv{u: u, st: st, old: old, vars: map[string]Val{}, where: c.Where}
	env.pkg = u.eng.pkgTypes(c.PkgPath, fn.Pkg())
	if recv != nil && sig.Recv() != nil {
		rv := *recv
		rv.T = sig.Recv().Type()
		if _, isIface := rv.T.Underlying().(*types.Interface); isIface {
			rv.T = recv.T
		}
		env.vars["self"] = rv
		if n := sig.Recv().Name(); n != "" && n != "_" {
			env.vars[n] = rv
		}
	}
	for i := 0; i < sig.Params().Len() && i < len(args); i++ {
		p := sig.Params().At(i)
		a := args[i]
		if a.Kind == KScalar && (a.T == nil || isUntyped(a.T)) {
			a.T = p.Type()
		}
		if _, isIface := p.Type().Underlying().(*types.Interface); !isIface && a.Kind == KScalar {
			a.T = p.Type()
		}
		n := p.Name()
		if n == "" || n == "_" {
			n = fmt.Sprintf("arg%d", i)
		}
		env.vars[n] = a
		env.vars[fmt.Sprintf("arg%d", i)] = a
		if i < len(c.Params) && c.Params[i] != "" {
			env.vars[c.Params[i]] = a
		}
	}
	return env
}

func (u *Unit) bindResults(env *specEnv, c *Contract, sig *types.Signature, res Val) {
	n := sig.Results().Len()
	var vals []Val
	if n == 1 {
		vals = []Val{res}
	} else if n > 1 {
		vals = res.Elems
	}
	for i := 0; i < n; i++ {
		name := sig.Results().At(i).Name()
		if i < len(c.Results) && c.Results[i] != "" {
			name = c.Results[i]
		}
		if name != "" && name != "_" {
			env.vars[name] = vals[i]
		}
		env.vars[fmt.Sprintf("result%d", i)] = vals[i]
		if n == 1 {
			env.vars["result"] = vals[i]
		}
	}
}

type modTarget struct {
	heap string
	idx  Term // "" = the whole heap
	win  *Val // for content(s): the slice window
}

// modTargets resolves a modifies clause to heap locations without changing the state.
func (u *Unit) modTargets(st *State, env *specEnv, m Clause) (ts []modTarget, err error) {
	defer func() {
		if r := recover(); r != nil {
			if se, ok := r.(specError); ok {
				err = fmt.Errorf("%s", se.msg)
				return
			}
			panic(r)
		}
	}()
	env.where = m.Where
	switch x := m.Expr.(type) {
	case *ast.CallExpr:
		name := ""
		if id, ok := x.Fun.(*ast.Ident); ok {
			name = id.Name
		}
		switch name {
		case "atomic":
			v := u.specEval(env, x.Args[0])
			return []modTarget{{atomicHeapOf(v.T), v.S, nil}}, nil
		case "backing":
			v := u.specEval(env, x.Args[0])
			if v.Kind == KSlice {
				el := v.T.Underlying().(*types.Slice).Elem()
				hn, _ := u.elemHeapName(el)
				return []modTarget{{hn, v.Arr, nil}}, nil
			}
			return nil, fmt.Errorf("%s: backing() of non-slice", m.Where)
		case "content":
			v := u.specEval(env, x.Args[0])
			if v.Kind == KSlice {
				el := v.T.Underlying().(*types.Slice).Elem()
				hn, _ := u.elemHeapName(el)
				vv := v
				return []modTarget{{hn, v.Arr, &vv}}, nil
			}
			if at, ok := v.T.Underlying().(*types.Array); ok {
				hn, _ := u.elemHeapName(at.Elem())
				return []modTarget{{hn, v.S, nil}}, nil
			}
			return nil, fmt.Errorf("%s: content() of non-slice", m.Where)
		case "mapof":
			v := u.specEval(env, x.Args[0])
			mt, ok := v.T.Underlying().(*types.Map)
			if !ok {
				return nil, fmt.Errorf("%s: mapof() of non-map", m.Where)
			}
			d, vh, c := mapHeaps(mt)
			ts = []modTarget{{d, v.S, nil}, {c, v.S, nil}, {vh, v.S, nil}}
			for _, suf := range []string{".arr", ".off", ".len", ".cap"} {
				ts = append(ts, modTarget{vh + suf, v.S, nil})
			}
			return ts, nil
		case "all":
			var b strings.Builder
			printNode(&b, u.eng.fset, x.Args[0])
			nm := strings.Join(strings.Fields(b.String()), "")
			if g, ok := u.eng.cs.Ghosts[nm]; ok {
				return []modTarget{{"G$" + g.Name, "", nil}}, nil
			}
			if i := strings.LastIndex(nm, "."); i > 0 {
				_, T, _ := env.specType(nm[:i])
				if T != nil {
					base := fieldHeap(T, nm[i+1:])
					ts = []modTarget{{base, "", nil}}
					for _, suf := range []string{".arr", ".off", ".len", ".cap"} {
						ts = append(ts, modTarget{base + suf, "", nil})
					}
					return ts, nil
				}
			}
			return nil, fmt.Errorf("%s: cannot resolve %q", m.Where, nm)
		}
		if g, ok := u.eng.cs.Ghosts[name]; ok {
			if len(x.Args) == 0 {
				return []modTarget{{"G$" + g.Name, "", nil}}, nil
			}
			a0 := u.specEval(env, x.Args[0])
			return []modTarget{{"G$" + g.Name, a0.S, nil}}, nil
		}
	case *ast.SelectorExpr:
		base := u.specEval(env, x.X)
		if base.T == nil {
			return nil, fmt.Errorf("%s: modifies target %q has no type", m.Where, m.Text)
		}
		T := base.T
		if p, ok := T.Underlying().(*types.Pointer); ok {
			T = p.Elem()
		}
		obj, index := lookupFieldAnyPkg(T, x.Sel.Name)
		if obj == nil {
			return nil, fmt.Errorf("%s: no field %s", m.Where, x.Sel.Name)
		}
		ref := base.S
		cur := T
		for k, i := range index {
			f := structOf(cur).Field(i)
			if k == len(index)-1 {
				hb := fieldHeap(cur, f.Name())
				if isSliceT(f.Type()) {
					for _, suf := range []string{".arr", ".off", ".len", ".cap"} {
						ts = append(ts, modTarget{hb + suf, ref, nil})
					}
					return ts, nil
				}
				return []modTarget{{hb, ref, nil}}, nil
			}
			v := u.fieldRead(st, cur, f, ref)
			ref = v.S
			cur = f.Type()
			if p, ok := cur.Underlying().(*types.Pointer); ok {
				cur = p.Elem()
			}
		}
	case *ast.Ident:
		if x.Name == "everything" {
			return []modTarget{{"*", "", nil}}, nil
		}
	}
	return nil, fmt.Errorf("%s: unsupported modifies target %q", m.Where, m.Text)
}

// havocTarget havocs the location(s) named by a modifies clause.
func (u *Unit) havocTarget(st *State, env *specEnv, m Clause) (err error) {
	defer func() {
		if r := recover(); r != nil {
			if se, ok := r.(specError); ok {
				err = fmt.Errorf("%s", se.msg)
				return
			}
			panic(r)
		}
	}()
	env.where = m.Where
	switch x := m.Expr.(type) {
	case *ast.CallExpr:
		name := ""
		if id, ok := x.Fun.(*ast.Ident); ok {
			name = id.Name
		}
		switch name {
		case "atomic":
			v := u.specEval(env, x.Args[0])
			hn := atomicHeapOf(v.T)
			sort := sArr(SInt, SInt)
			es := SInt
			if hn == "ATOM$bool" {
				sort, es = sArr(SInt, SBool), SBool
			}
			u.logWrite(st, hn, v.S)
			u.setHeap(st, hn, sort, tStore(u.heapTerm(st, hn, sort), v.S, u.fresh("atomic", es)))
			return nil
		case "backing":
			v := u.specEval(env, x.Args[0])
			if v.Kind == KSlice {
				el := v.T.Underlying().(*types.Slice).Elem()
				if isSliceT(el) {
					return fmt.Errorf("%s: backing() of slice-of-slices unsupported", m.Where)
				}
				u.setElemArray(st, el, v.Arr, u.fresh("content", sArr(SInt, sortOf(el))))
				return nil
			}
			return fmt.Errorf("%s: backing() of non-slice", m.Where)
		case "content":
			v := u.specEval(env, x.Args[0])
			if v.Kind == KSlice {
				el := v.T.Underlying().(*types.Slice).Elem()
				oldc := u.elemArray(st, el, v.Arr)
				nc := u.fresh("content", sArr(SInt, sortOf(el)))
				q := fmt.Sprintf("i!q%d", u.nextQ())
				// indices outside the slice window are unchanged
				st.assume(fmt.Sprintf("(forall ((%s Int)) (! (=> (or (< %s %s) (>= %s (+ %s %s))) (= (select %s %s) (select %s %s))) :pattern ((select %s %s))))", q, q, v.Off, q, v.Off, v.Len, nc, q, oldc, q, nc, q))
				if _, _, ok := intRange(el); ok {
					lo, hi, _ := intRange(el)
					st.assume(fmt.Sprintf("(forall ((%s Int)) (! (and (<= %s (select %s %s)) (<= (select %s %s) %s)) :pattern ((select %s %s))))", q, lo, nc, q, nc, q, hi, nc, q))
				}
				u.setElemArray(st, el, v.Arr, nc)
				return nil
			}
			if at, ok := v.T.Underlying().(*types.Array); ok {
				nc := u.fresh("content", sArr(SInt, sortOf(at.Elem())))
				u.setElemArray(st, at.Elem(), v.S, nc)
				return nil
			}
			return fmt.Errorf("%s: content() of non-slice", m.Where)
		case "mapof":
			v := u.specEval(env, x.Args[0])
			mt, ok := v.T.Underlying().(*types.Map)
			if !ok {
				return fmt.Errorf("%s: mapof() of non-map", m.Where)
			}
			u.havocMap(st, mt, v.S)
			return nil
		case "all":
			// all(T.f): the whole heap of a field / ghost
			var b strings.Builder
			printNode(&b, u.eng.fset, x.Args[0])
			u.havocNamed(st, env, b.String())
			return nil
		}
		if g, ok := u.eng.cs.Ghosts[name]; ok {
			var args []Val
			for _, a := range x.Args {
				args = append(args, u.specEval(env, a))
			}
			sort := u.ghostSort(env, g)
			h := u.heapTerm(st, "G$"+g.Name, sort)
			rs := sort
			for range args {
				rs = arrayElemSort(rs)
			}
			nv := u.fresh("g."+g.Name, rs)
			// nested store
			if len(args) > 0 {
				u.logWrite(st, "G$"+g.Name, args[0].S)
			}
			u.setHeap(st, "G$"+g.Name, sort, nestedStore(h, args, nv))
			u.ghostRefBound(st, env, g, nv, rs, st.frontier, false)
			return nil
		}
		return fmt.Errorf("%s: unsupported modifies target %q", m.Where, m.Text)
	case *ast.SelectorExpr:
		base := u.specEval(env, x.X)
		if base.T == nil {
			return fmt.Errorf("%s: modifies target %q has no type", m.Where, m.Text)
		}
		T := base.T
		if p, ok := T.Underlying().(*types.Pointer); ok {
			T = p.Elem()
		}
		obj, index := lookupFieldAnyPkg(T, x.Sel.Name)
		if obj == nil {
			return fmt.Errorf("%s: no field %s", m.Where, x.Sel.Name)
		}
		ref := base.S
		cur := T
		for k, i := range index {
			f := structOf(cur).Field(i)
			if k == len(index)-1 {
				if isStructVal(f.Type()) || isArrayT(f.Type()) || isOpaqueStruct(f.Type()) {
					return fmt.Errorf("%s: modifies of struct-valued field unsupported", m.Where)
				}
				nv := u.freshVal("mod."+f.Name(), f.Type())
				st.assume(u.typeAssume(nv))
				u.storeAt(st, fieldHeap(cur, f.Name()), f.Type(), ref, nv)
				return nil
			}
			v := u.fieldRead(st, cur, f, ref)
			ref = v.S
			cur = f.Type()
			if p, ok := cur.Underlying().(*types.Pointer); ok {
				cur = p.Elem()
			}
		}
	case *ast.Ident:
		if x.Name == "everything" {
			for _, h := range sortedKeys(u.root().heapSort) {
				u.havocHeap(st, h)
			}
			return nil
		}
	}
	return fmt.Errorf("%s: unsupported modifies target %q", m.Where, m.Text)
}

func nestedStore(h Term, idx []Val, v Term) Term {
	if len(idx) == 0 {
		return v
	}
	if len(idx) == 1 {
		return tStore(h, idx[0].S, v)
	}
	return tStore(h, idx[0].S, nestedStore(tSel(h, idx[0].S), idx[1:], v))
}

func (u *Unit) havocMap(st *State, mt *types.Map, m Term) {
	d, vh, c := mapHeaps(mt)
	u.logWrite(st, d, m)
	u.logWrite(st, c, m)
	u.logWrite(st, vh, m)
	for _, suf := range []string{".arr", ".off", ".len", ".cap"} {
		u.logWrite(st, vh+suf, m)
	}
	ks := u.keySort(mt)
	dsort := sArr(SInt, sArr(ks, SBool))
	u.setHeap(st, d, dsort, tStore(u.heapTerm(st, d, dsort), m, u.fresh("dom", sArr(ks, SBool))))
	u.setHeap(st, c, sArr(SInt, SInt), tStore(u.heapTerm(st, c, sArr(SInt, SInt)), m, u.fresh("card", SInt)))
	if isSliceT(mt.Elem()) {
		for _, suf := range []string{".arr", ".off", ".len", ".cap"} {
			sort := sArr(SInt, sArr(ks, SInt))
			u.setHeap(st, vh+suf, sort, tStore(u.heapTerm(st, vh+suf, sort), m, u.fresh("vals", sArr(ks, SInt))))
		}
		return
	}
	vs := sortOf(mt.Elem())
	sort := sArr(SInt, sArr(ks, vs))
	u.setHeap(st, vh, sort, tStore(u.heapTerm(st, vh, sort), m, u.fresh("vals", sArr(ks, vs))))
}

// havocNamed: "T.f" (field heap of package type T) or ghost name.
func (u *Unit) havocNamed(st *State, env *specEnv, name string) {
	name = strings.Join(strings.Fields(name), "")
	if g, ok := u.eng.cs.Ghosts[name]; ok {
		sort := u.ghostSort(env, g)
		u.heapTerm(st, "G$"+g.Name, sort)
		u.havocHeap(st, "G$"+g.Name)
		u.ghostRefBound(st, env, g, st.heap["G$"+g.Name], sort, st.frontier, false)
		return
	}
	if i := strings.LastIndex(name, "."); i > 0 {
		_, T, _ := env.specType(name[:i])
		if T != nil {
			if s := structOf(T); s != nil {
				for j := 0; j < s.NumFields(); j++ {
					if s.Field(j).Name() == name[i+1:] {
						f := s.Field(j)
						base := fieldHeap(T, f.Name())
						if isSliceT(f.Type()) {
							for _, suf := range []string{".arr", ".off", ".len", ".cap"} {
								u.heapTerm(st, base+suf, sArr(SInt, SInt))
								u.havocHeap(st, base+suf)
							}
						} else {
							u.heapTerm(st, base, sArr(SInt, sortOf(f.Type())))
							u.havocHeap(st, base)
						}
						return
					}
				}
			}
		}
	}
	env.fail("cannot resolve heap name %q", name)
}

// ---- conversions and builtins ----

func (u *Unit) evalConversion(st *State, call *ast.CallExpr, T types.Type) Val {
	v := u.eval(st, call.Args[0])
	from := u.typeOf(call.Args[0])
	switch t := T.Underlying().(type) {
	case *types.Basic:
		switch {
		case t.Info()&types.IsInteger != 0:
			if v.Sort == SStr {
				break
			}
			return u.convertInt(v, T)
		case t.Info()&types.IsFloat != 0:
			if v.Sort == SInt {
				return scalar("(to_real "+v.S+")", SReal, T)
			}
			return scalar(v.S, SReal, T)
		case t.Info()&types.IsString != 0:
			if v.Kind == KSlice {
				return scalar(u.strOfBytes(st, v), SStr, T)
			}
			if v.Sort == SStr {
				return scalar(v.S, SStr, T)
			}
			// string(rune)
			s := u.fresh("runestr", SStr)
			return scalar(s, SStr, T)
		case t.Info()&types.IsBoolean != 0:
			return scalar(v.S, SBool, T)
		}
	case *types.Slice:
		if v.Sort == SStr {
			return u.bytesOfStr(st, v.S, T)
		}
		if v.Kind == KSlice {
			v.T = T
			return v
		}
	case *types.Interface:
		return u.toIface(st, v, T)
	case *types.Pointer, *types.Map, *types.Signature, *types.Chan:
		v.T = T
		return v
	case *types.Struct:
		if isTimeTime(T) {
			v.T = T
			return v
		}
		if isStructVal(from) {
			v.T = T
			return v
		}
	case *types.Array:
		v.T = T
		return v
	}
	u.note("abstracted", "conversion "+exprStr(u.eng.fset, call))
	r := u.freshVal("conv", T)
	st.assume(u.typeAssume(r))
	return r
}

func (u *Unit) evalBuiltin(st *State, call *ast.CallExpr, name string) Val {
	switch name {
	case "len":
		v := u.eval(st, call.Args[0])
		r := u.lenOf(st, v, nil)
		r.T = types.Typ[types.Int]
		return r
	case "cap":
		v := u.eval(st, call.Args[0])
		if v.Kind == KSlice {
			return intVal(v.Cap)
		}
		if at, ok := v.T.Underlying().(*types.Array); ok {
			return intVal(tInt(at.Len()))
		}
		return intVal(u.fresh("cap", SInt))
	case "new":
		T := u.typeOf(call.Args[0])
		if isStructVal(T) || isArrayT(T) {
			z := u.zeroVal(st, T)
			st.assume(tEq(tApp("dyntype", z.S), u.typeID(types.NewPointer(T))))
			return scalar(z.S, SInt, types.NewPointer(T))
		}
		r := u.alloc(st, "new")
		u.storeAt(st, "P$"+typeKey(T), T, r, u.zeroVal(st, T))
		return scalar(r, SInt, types.NewPointer(T))
	case "make":
		T := u.typeOf(call.Args[0])
		switch t := T.Underlying().(type) {
		case *types.Slice:
			n := u.eval(st, call.Args[1])
			c := n
			if len(call.Args) > 2 {
				c = u.eval(st, call.Args[2])
			}
			lbl := exprStr(u.eng.fset, call)
			u.oblige(st, "make", lbl, tAnd(tLe("0", n.S), tLe(n.S, c.S)), call.Pos())
			if b := u.root().allocBound(); b != "" {
				sz := u.eng.sizeofElem(t.Elem())
				u.oblige(st, "alloc", lbl, tLe("(* "+c.S+" "+tInt(sz)+")", b), call.Pos())
			}
			r := u.alloc(st, "make")
			s := sortOf(t.Elem())
			if !isSliceT(t.Elem()) && !isStructVal(t.Elem()) && !isArrayT(t.Elem()) {
				z := u.zeroValPure(t.Elem())
				if _, isLit := isIntLit(z); isLit || z == "false" || z == "0.0" {
					u.setElemArray(st, t.Elem(), r, fmt.Sprintf("((as const %s) %s)", sArr(SInt, s), z))
				} else {
					// symbolic zero value (zero time, empty string): cvc5 wants constant arrays of values only
					zc := u.fresh("zeros", sArr(SInt, s))
					q := fmt.Sprintf("i!q%d", u.nextQ())
					st.assume(fmt.Sprintf("(forall ((%s Int)) (! (= (select %s %s) %s) :pattern ((select %s %s))))", q, zc, q, z, zc, q))
					u.setElemArray(st, t.Elem(), r, zc)
				}
			}
			return Val{Kind: KSlice, T: T, Arr: r, Off: "0", Len: n.S, Cap: c.S}
		case *types.Map:
			for _, a := range call.Args[1:] {
				u.eval(st, a)
			}
			return scalar(u.mapNew(st, t), SInt, T)
		case *types.Chan:
			for _, a := range call.Args[1:] {
				u.eval(st, a)
			}
			return scalar(u.alloc(st, "chan"), SInt, T)
		}
	case "append":
		return u.evalAppend(st, call)
	case "copy":
		dst := u.eval(st, call.Args[0])
		src := u.eval(st, call.Args[1])
		return u.doCopy(st, dst, src)
	case "delete":
		m := u.eval(st, call.Args[0])
		k := u.eval(st, call.Args[1])
		mt := m.T.Underlying().(*types.Map)
		// delete on a nil map is a no-op in Go
		u.mapDelete(st, mt, m.S, k)
		return Val{Kind: KTuple}
	case "panic":
		for _, a := range call.Args {
			u.eval(st, a)
		}
		if u.root().flag("nopanic") {
			u.oblige(st, "panic", exprStr(u.eng.fset, call), "false", call.Pos())
		}
		st.assume("false")
		return Val{Kind: KTuple}
	case "min", "max":
		a := u.eval(st, call.Args[0])
		for _, e := range call.Args[1:] {
			b := u.eval(st, e)
			if name == "min" {
				a = scalar(tIte(tLe(a.S, b.S), a.S, b.S), a.Sort, u.typeOf(call))
			} else {
				a = scalar(tIte(tLe(a.S, b.S), b.S, a.S), a.Sort, u.typeOf(call))
			}
		}
		return a
	case "close":
		ch := u.eval(st, call.Args[0])
		u.decls.declFun("chan_closed", []string{SInt}, SBool)
		_ = ch
		// `flag on_close <condition>`: what must hold whenever this function (or code inlined into it) closes a channel -
		// a close is a signal to whoever waits on the channel, and the condition says what the waiter may then rely on
		if rc := u.root().contract; rc != nil && rc.Flags["on_close"] != "" {
			if e, err := parseSpecExpr(rc.Flags["on_close"]); err == nil {
				env := u.invEnv(st, call.Pos())
				if t, err := u.specBool(env, Clause{Text: rc.Flags["on_close"], Expr: e, Where: rc.Where}); err == nil {
					u.oblige(st, "close-pre", u.seqLabel("close-pre", call.Pos()), t, call.Pos())
				} else {
					u.reject("contract error: %v", err)
				}
			} else {
				u.reject("contract error: %v", err)
			}
		}
		return Val{Kind: KTuple}
	case "print", "println", "recover":
		if name == "recover" {
			return scalar("0", SInt, u.typeOf(call))
		}
		return Val{Kind: KTuple}
	case "clear":
		u.note("abstracted", "clear()")
		return Val{Kind: KTuple}
	}
	u.reject("unsupported builtin %s", name)
	return u.freshVal("builtin", u.typeOf(call))
}

func (u *Unit) flag(name string) bool {
	return u.contract != nil && u.contract.Flags[name] != ""
}

func (u *Unit) allocBound() string {
	if u.contract == nil {
		return ""
	}
	b := u.contract.Flags["alloc_bound"]
	if b == "" {
		return ""
	}
	env := &specEnv{u: u, st: u.entry, vars: map[string]Val{}, pkg: u.pkg.Types, where: u.contract.Where}
	e, err := parseSpecExpr(b)
	if err != nil {
		u.reject("alloc_bound: %v", err)
		return ""
	}
	v, err := u.specVal(env, Clause{Text: b, Expr: e, Where: u.contract.Where})
	if err != nil {
		u.reject("alloc_bound: %v", err)
		return ""
	}
	return v.S
}

func (u *Unit) doCopy(st *State, dst, src Val) Val {
	n := tIte(tLe(dst.Len, src.Len), dst.Len, src.Len)
	el := dst.T.Underlying().(*types.Slice).Elem()
	if src.Sort == SStr {
		// copy(dst, string)
		slen := tApp("slen", src.S)
		n = tIte(tLe(dst.Len, slen), dst.Len, slen)
		oldc := u.elemArray(st, el, dst.Arr)
		nc := u.fresh("copy", sArr(SInt, SInt))
		q := fmt.Sprintf("i!q%d", u.nextQ())
		st.assume(fmt.Sprintf("(forall ((%s Int)) (! (= (select %s %s) (ite (and (<= %s %s) (< %s (+ %s %s))) (sat %s (- %s %s)) (select %s %s))) :pattern ((select %s %s))))",
			q, nc, q, dst.Off, q, q, dst.Off, n, src.S, q, dst.Off, oldc, q, nc, q))
		u.setElemArray(st, el, dst.Arr, nc)
		nn := u.fresh("ncopy", SInt)
		st.assume(tEq(nn, n))
		return intVal(nn)
	}
	if isSliceT(el) || isStructVal(el) {
		u.note("abstracted", "copy of non-scalar elements")
		return intVal(u.fresh("ncopy", SInt))
	}
	srcC := u.elemArray(st, el, src.Arr)
	dstC := u.elemArray(st, el, dst.Arr)
	// small literal lengths: unroll into stores (quantifier-free)
	if k, ok := constMin(dst.Len, src.Len); ok && k <= 32 {
		c := dstC
		for i := int64(0); i < k; i++ {
			c = tStore(c, tAdd(dst.Off, tInt(i)), tSel(srcC, tAdd(src.Off, tInt(i))))
		}
		u.setElemArray(st, el, dst.Arr, c)
		return intVal(tInt(k))
	}
	nc := u.fresh("copy", sArr(SInt, sortOf(el)))
	q := fmt.Sprintf("i!q%d", u.nextQ())
	nn := u.fresh("ncopy", SInt)
	st.assume(tEq(nn, n))
	st.assume(fmt.Sprintf("(forall ((%s Int)) (! (= (select %s %s) (ite (and (<= %s %s) (< %s (+ %s %s))) (select %s (+ %s (- %s %s))) (select %s %s))) :pattern ((select %s %s))))",
		q, nc, q, dst.Off, q, q, dst.Off, nn, srcC, src.Off, q, dst.Off, dstC, q, nc, q))
	u.setElemArray(st, el, dst.Arr, nc)
	return intVal(nn)
}

func constMin(a, b Term) (int64, bool) {
	x, ok1 := isIntLit(a)
	y, ok2 := isIntLit(b)
	if ok1 && ok2 {
		if x < y {
			return x, true
		}
		return y, true
	}
	return 0, false
}

func (u *Unit) evalAppend(st *State, call *ast.CallExpr) Val {
	s := u.eval(st, call.Args[0])
	T := u.typeOf(call)
	el := T.Underlying().(*types.Slice).Elem()
	if s.Kind != KSlice {
		s = Val{Kind: KSlice, T: T, Arr: "0", Off: "0", Len: "0", Cap: "0"}
	}
	if call.Ellipsis != token.NoPos {
		// append(s, t...) : result has len(s)+len(t), content = s ++ t ; always modelled as a fresh array (sound for value reasoning when old s is not re-used for writes)
		t := u.eval(st, call.Args[1])
		var tlen Term
		if t.Sort == SStr {
			tlen = tApp("slen", t.S)
		} else {
			tlen = t.Len
		}
		r := u.alloc(st, "append")
		nlen := u.fresh("applen", SInt)
		st.assume(tEq(nlen, tAdd(s.Len, tlen)))
		ncap := u.fresh("appcap", SInt)
		st.assume(tLe(nlen, ncap))
		if !isSliceT(el) && !isStructVal(el) {
			nc := u.fresh("appcontent", sArr(SInt, sortOf(el)))
			sC := u.elemArray(st, el, s.Arr)
			q := fmt.Sprintf("i!q%d", u.nextQ())
			var tsel string
			if t.Sort == SStr {
				tsel = fmt.Sprintf("(sat %s (- %s %s))", t.S, q, s.Len)
			} else {
				tsel = fmt.Sprintf("(select %s (+ %s (- %s %s)))", u.elemArray(st, el, t.Arr), t.Off, q, s.Len)
			}
			st.assume(fmt.Sprintf("(forall ((%s Int)) (! (=> (and (<= 0 %s) (< %s %s)) (= (select %s %s) (ite (< %s %s) (select %s (+ %s %s)) %s))) :pattern ((select %s %s))))",
				q, q, q, nlen, nc, q, q, s.Len, sC, s.Off, q, tsel, nc, q))
			u.setElemArray(st, el, r, nc)
		}
		u.note("assumptions", "append(s, t...) modelled as copying into a fresh array (aliasing of spare capacity not modelled)")
		return Val{Kind: KSlice, T: T, Arr: r, Off: "0", Len: nlen, Cap: ncap}
	}
	// append(s, e1, ..., ek): in place when capacity allows, else fresh array
	k := int64(len(call.Args) - 1)
	var elems []Val
	for _, a := range call.Args[1:] {
		elems = append(elems, u.copyVal(st, u.coerce(st, u.eval(st, a), el)))
	}
	fits := tLe(tAdd(s.Len, tInt(k)), s.Cap)
	if m, forced := st.ghost["$appendMode"]; forced && !isSliceT(el) {
		// statement-level case split (see execStmt): one simple model per case
		if m.S == "fits" {
			st.assume(fits)
			c := u.elemArray(st, el, s.Arr)
			for i, e := range elems {
				c = tStore(c, tAdd(s.Off, tAdd(s.Len, tInt(int64(i)))), e.S)
			}
			u.setElemArray(st, el, s.Arr, c)
			return Val{Kind: KSlice, T: T, Arr: s.Arr, Off: s.Off, Len: tAdd(s.Len, tInt(k)), Cap: s.Cap}
		}
		st.assume(tNot(fits))
		fr := u.alloc(st, "append")
		ncap := u.fresh("appcap", SInt)
		st.assume(tLe(tAdd(s.Len, tInt(k)), ncap))
		sC := u.elemArray(st, el, s.Arr)
		frC := u.fresh("appcontent", sArr(SInt, sortOf(el)))
		q := fmt.Sprintf("i!q%d", u.nextQ())
		st.assume(fmt.Sprintf("(forall ((%s Int)) (! (=> (and (<= 0 %s) (< %s %s)) (= (select %s %s) (select %s (+ %s %s)))) :pattern ((select %s %s))))",
			q, q, q, s.Len, frC, q, sC, s.Off, q, frC, q))
		c := frC
		for i, e := range elems {
			c = tStore(c, tAdd(s.Len, tInt(int64(i))), e.S)
		}
		u.setElemArray(st, el, fr, c)
		return Val{Kind: KSlice, T: T, Arr: fr, Off: "0", Len: tAdd(s.Len, tInt(k)), Cap: ncap}
	}
	fresh := u.alloc(st, "append")
	arr := u.fresh("apparr", SInt)
	st.assume(tEq(arr, tIte(fits, s.Arr, fresh)))
	off := u.fresh("appoff", SInt)
	st.assume(tEq(off, tIte(fits, s.Off, "0")))
	ncap := u.fresh("appcap", SInt)
	st.assume(tAnd(tImp(fits, tEq(ncap, s.Cap)), tLe(tAdd(s.Len, tInt(k)), ncap)))
	if isSliceT(el) {
		u.note("assumptions", "append of slice-typed elements: only new elements are tracked")
		for i, e := range elems {
			u.storeElem(st, el, arr, tAdd(off, tAdd(s.Len, tInt(int64(i)))), e)
		}
	} else {
		// content of the result array: old prefix then new elements
		sC := u.elemArray(st, el, s.Arr)
		frC := u.fresh("appcontent", sArr(SInt, sortOf(el)))
		q := fmt.Sprintf("i!q%d", u.nextQ())
		// fresh array starts as a copy of s's window
		st.assume(fmt.Sprintf("(forall ((%s Int)) (! (=> (and (<= 0 %s) (< %s %s)) (= (select %s %s) (select %s (+ %s %s)))) :pattern ((select %s %s))))",
			q, q, q, s.Len, frC, q, sC, s.Off, q, frC, q))
		base := tIte(fits, sC, frC)
		c := base
		for i, e := range elems {
			c = tStore(c, tAdd(off, tAdd(s.Len, tInt(int64(i)))), e.S)
		}
		u.setElemArray(st, el, arr, c)
	}
	return Val{Kind: KSlice, T: T, Arr: arr, Off: off, Len: tAdd(s.Len, tInt(k)), Cap: ncap}
}


// verifPoint(k): in-body assume/assert clauses of lemma functions (verif-only code in the contract files).
func (u *Unit) verifPoint(st *State, call *ast.CallExpr) {
	kv := u.eval(st, call.Args[0])
	k64, ok := isIntLit(kv.S)
	r := u.root()
	if !ok || r.contract == nil {
		u.reject("verifPoint needs a constant argument")
		return
	}
	k := int(k64)
	for i, pc := range r.contract.Points[k] {
		env := u.invEnv(st, call.Pos())
		env.old = st.old
		t, err := u.specBool(env, pc.Clause)
		if err != nil {
			u.reject("contract error: %v", err)
			continue
		}
		if pc.Assume {
			st.assume(t)
			u.note("assumptions", fmt.Sprintf("lemma hypothesis at point %d of %s: %s", k, r.name, pc.Text))
		} else {
			for pi, pt := range splitGoal(t) {
				u.oblige(st, "assert", fmt.Sprintf("p%d.%d.%d", k, i+1, pi+1), pt, call.Pos())
			}
		}
	}
}


// funcAlias resolves `var F = pkg.G` (package level, function-typed) to G.
func (u *Unit) funcAlias(fun ast.Expr) *types.Func {
	var id *ast.Ident
	switch f := fun.(type) {
	case *ast.Ident:
		id = f
	case *ast.SelectorExpr:
		id = f.Sel
	default:
		return nil
	}
	v, ok := u.info().ObjectOf(id).(*types.Var)
	if !ok || v.Pkg() == nil || v.Parent() != v.Pkg().Scope() {
		return nil
	}
	p := u.eng.pkgs[v.Pkg().Path()]
	if p == nil {
		return nil
	}
	for _, file := range p.Syntax {
		for _, d := range file.Decls {
			gd, ok := d.(*ast.GenDecl)
			if !ok {
				continue
			}
			for _, sp := range gd.Specs {
				vs, ok := sp.(*ast.ValueSpec)
				if !ok || len(vs.Names) != len(vs.Values) {
					continue
				}
				for i, n := range vs.Names {
					if p.TypesInfo.Defs[n] != v {
						continue
					}
					var tid *ast.Ident
					switch e := ast.Unparen(vs.Values[i]).(type) {
					case *ast.Ident:
						tid = e
					case *ast.SelectorExpr:
						tid = e.Sel
					}
					if tid == nil {
						return nil
					}
					if fn, ok := p.TypesInfo.ObjectOf(tid).(*types.Func); ok {
						return fn
					}
					return nil
				}
			}
		}
	}
	return nil
}


func atomicHeapOf(T types.Type) string {
	if T != nil {
		if p, ok := T.Underlying().(*types.Pointer); ok {
			T = p.Elem()
		}
		if n, ok := types.Unalias(T).(*types.Named); ok {
			switch n.Obj().Name() {
			case "Bool":
				return "ATOM$bool"
			case "Value", "Pointer":
				return "ATOM$ref"
			}
		}
	}
	return "ATOM$int"
}

// ghostRefBound: a ghost whose values are references only ever holds references to objects that exist (below the
// allocation frontier F). t is the ghost's heap term or a row/cell of it, of the given sort.
func (u *Unit) ghostRefBound(st *State, env *specEnv, g *GhostField, t Term, sort string, F Term, axiom bool) {
	_, rT, _ := env.specType(g.Ret)
	if r := strings.TrimSpace(g.Ret); r == "any" || r == "error" || r == "ref" {
		// reference-valued
	} else if rT == nil {
		return
	} else {
		switch rT.Underlying().(type) {
		case *types.Pointer, *types.Interface, *types.Map, *types.Chan, *types.Signature:
		default:
			return
		}
	}
	var bs []string
	sel := t
	for i := 0; strings.HasPrefix(sort, "(Array "); i++ {
		v := fmt.Sprintf("g%d!qb%d", i, u.nextQ())
		bs = append(bs, "("+v+" "+arrayKeySort(sort)+")")
		sel = tSel(sel, v)
		sort = arrayElemSort(sort)
	}
	if sort != SInt {
		return
	}
	body := tAnd(tLe("0", sel), tLt(sel, F))
	if len(bs) > 0 {
		body = fmt.Sprintf("(forall (%s) (! %s :pattern (%s)))", strings.Join(bs, " "), body, sel)
	}
	if axiom {
		r := u.root()
		r.axioms = append(r.axioms, body)
		return
	}
	st.assume(body)
}
