package main

import (
	"fmt"
	"go/ast"
	"go/constant"
	"go/token"
	"go/types"
	"hash/fnv"
	"sort"
	"strconv"
	"strings"
)

// specEnv is the evaluation context of a contract expression.
type specEnv struct {
	u     *Unit
	st    *State
	old   *State
	vars  map[string]Val
	pkg   *types.Package
	pos   token.Pos // position whose Go scope is visible (loop invariants); NoPos = params only
	depth int
	where string
}

func (e *specEnv) with(name string, v Val) *specEnv {
	n := *e
	n.vars = make(map[string]Val, len(e.vars)+1)
	for k, x := range e.vars {
		n.vars[k] = x
	}
	n.vars[name] = v
	return &n
}

type specError struct{ msg string }

func (e *specEnv) fail(format string, a ...any) {
	panic(specError{fmt.Sprintf("%s: %s", e.where, fmt.Sprintf(format, a...))})
}

// specSort maps a spec-language type name to (SMT sort, Go type or nil).
func (e *specEnv) specType(ty string) (string, types.Type, bool) {
	ty = strings.TrimSpace(ty)
	switch ty {
	case "int", "ref":
		return SInt, types.Typ[types.Int], false
	case "bool":
		return SBool, types.Typ[types.Bool], false
	case "real":
		return SReal, types.Typ[types.Float64], false
	case "string":
		return SStr, types.Typ[types.String], false
	case "seq":
		return sArr(SInt, SInt), nil, false
	case "any", "error":
		return SInt, nil, false
	}
	if strings.HasPrefix(ty, "arr[") {
		j := matchParen(ty, 3)
		if j > 0 {
			ks, _, _ := e.specType(ty[4:j])
			vs, _, _ := e.specType(ty[j+1:])
			return sArr(ks, vs), nil, false
		}
	}
	// a Go type of the package
	if e.pkg != nil {
		tv, err := types.Eval(e.u.eng.fset, e.pkg, token.NoPos, ty)
		if err == nil && tv.IsType() {
			if isSliceT(tv.Type) {
				return "", tv.Type, true
			}
			return sortOf(tv.Type), tv.Type, false
		}
		if alt := e.u.eng.lookupTypeAnywhere(ty); alt != nil {
			if isSliceT(alt) {
				return "", alt, true
			}
			return sortOf(alt), alt, false
		}
	}
	e.fail("unknown spec type %q", ty)
	return "", nil, false
}

func (u *Unit) specBool(env *specEnv, c Clause) (t Term, err error) {
	defer func() {
		if r := recover(); r != nil {
			if se, ok := r.(specError); ok {
				err = fmt.Errorf("%s", se.msg)
				return
			}
			panic(r)
		}
	}()
	if c.Expr == nil {
		return "true", fmt.Errorf("%s: unparsed clause %q", c.Where, c.Text)
	}
	env.where = c.Where
	v := u.specEval(env, c.Expr)
	if v.Kind != KScalar || v.Sort != SBool {
		return "true", fmt.Errorf("%s: clause %q is not boolean", c.Where, c.Text)
	}
	return v.S, nil
}

func (u *Unit) specVal(env *specEnv, c Clause) (v Val, err error) {
	defer func() {
		if r := recover(); r != nil {
			if se, ok := r.(specError); ok {
				err = fmt.Errorf("%s", se.msg)
				return
			}
			panic(r)
		}
	}()
	env.where = c.Where
	if c.Expr == nil {
		return Val{}, fmt.Errorf("%s: unparsed clause %q", c.Where, c.Text)
	}
	return u.specEval(env, c.Expr), nil
}

func (u *Unit) lookupLocal(st *State, name string, pos token.Pos) (Val, bool) {
	var best types.Object
	for o := range st.vars {
		if o.Name() != name {
			continue
		}
		if pos != token.NoPos {
			sc := o.Parent()
			if sc != nil && !(sc.Pos() <= pos && pos <= sc.End()) {
				continue
			}
			if o.Pos() > pos {
				continue
			}
		}
		if best == nil || o.Pos() > best.Pos() {
			best = o
		}
	}
	if best == nil {
		return Val{}, false
	}
	return st.vars[best], true
}

func constToVal(u *Unit, cv constant.Value, T types.Type) (Val, bool) {
	switch cv.Kind() {
	case constant.Bool:
		return scalar(tBool(constant.BoolVal(cv)), SBool, T), true
	case constant.Int:
		s := cv.ExactString()
		if strings.HasPrefix(s, "-") {
			s = "(- " + s[1:] + ")"
		}
		if T != nil && sortOf(T) == SReal {
			return scalar("(to_real "+s+")", SReal, T), true
		}
		return scalar(s, SInt, T), true
	case constant.String:
		return scalar(u.strLit(constant.StringVal(cv)), SStr, T), true
	case constant.Float:
		if T != nil && sortOf(T) == SInt {
			if i, ok := constant.Int64Val(constant.ToInt(cv)); ok {
				return scalar(tInt(i), SInt, T), true
			}
		}
		r := constant.ToFloat(cv)
		num, den := constant.Num(r), constant.Denom(r)
		if num.Kind() == constant.Int && den.Kind() == constant.Int {
			ns := num.ExactString()
			neg := strings.HasPrefix(ns, "-")
			if neg {
				ns = ns[1:]
			}
			t := fmt.Sprintf("(/ %s.0 %s.0)", ns, den.ExactString())
			if neg {
				t = "(- " + t + ")"
			}
			return scalar(t, SReal, T), true
		}
	}
	return Val{}, false
}

var basicConv = map[string]types.Type{
	"int": types.Typ[types.Int], "int8": types.Typ[types.Int8], "int16": types.Typ[types.Int16], "int32": types.Typ[types.Int32], "int64": types.Typ[types.Int64],
	"uint": types.Typ[types.Uint], "uint8": types.Typ[types.Uint8], "byte": types.Typ[types.Uint8], "uint16": types.Typ[types.Uint16], "uint32": types.Typ[types.Uint32], "uint64": types.Typ[types.Uint64],
}

func (u *Unit) specEval(env *specEnv, e ast.Expr) Val {
	switch x := e.(type) {
	case *ast.ParenExpr:
		return u.specEval(env, x.X)
	case *ast.BasicLit:
		switch x.Kind {
		case token.INT:
			v, ok := constToVal(u, constant.MakeFromLiteral(x.Value, x.Kind, 0), types.Typ[types.Int])
			if ok {
				return v
			}
		case token.CHAR:
			cv := constant.MakeFromLiteral(x.Value, x.Kind, 0)
			i, _ := constant.Int64Val(cv)
			return intVal(tInt(i))
		case token.STRING:
			s, _ := strconv.Unquote(x.Value)
			return scalar(u.strLit(s), SStr, types.Typ[types.String])
		case token.FLOAT:
			v, ok := constToVal(u, constant.MakeFromLiteral(x.Value, x.Kind, 0), types.Typ[types.Float64])
			if ok {
				return v
			}
		}
		env.fail("unsupported literal %s", x.Value)
	case *ast.Ident:
		return u.specIdent(env, x)
	case *ast.UnaryExpr:
		v := u.specEval(env, x.X)
		switch x.Op {
		case token.NOT:
			return boolVal(tNot(v.S))
		case token.SUB:
			return scalar("(- "+v.S+")", v.Sort, v.T)
		case token.ADD:
			return v
		case token.AND:
			return v // &x of a boxed struct is its reference
		}
		env.fail("unsupported unary %s", x.Op)
	case *ast.StarExpr:
		v := u.specEval(env, x.X)
		if v.T != nil {
			if p, ok := v.T.Underlying().(*types.Pointer); ok {
				if isStructVal(p.Elem()) {
					return scalar(v.S, SInt, p.Elem())
				}
				return u.loadAt(env.st, "P$"+typeKey(p.Elem()), p.Elem(), v.S)
			}
		}
		env.fail("cannot dereference")
	case *ast.BinaryExpr:
		return u.specBinary(env, x)
	case *ast.SelectorExpr:
		return u.specSelector(env, x)
	case *ast.IndexExpr:
		base := u.specEval(env, x.X)
		idx := u.specEval(env, x.Index)
		return u.specIndex(env, base, idx)
	case *ast.SliceExpr:
		base := u.specEval(env, x.X)
		var lo, hi Term = "0", ""
		if x.Low != nil {
			lo = u.specEval(env, x.Low).S
		}
		if x.High != nil {
			hi = u.specEval(env, x.High).S
		}
		switch {
		case base.Kind == KSlice:
			if hi == "" {
				hi = base.Len
			}
			return Val{Kind: KSlice, T: base.T, Arr: base.Arr, Off: tAdd(base.Off, lo), Len: tSub(hi, lo), Cap: tSub(base.Cap, lo)}
		case base.Sort == SStr:
			if hi == "" {
				hi = tApp("slen", base.S)
			}
			return scalar(tApp("ssub", base.S, lo, hi), SStr, base.T)
		}
		env.fail("cannot slice")
	case *ast.CallExpr:
		return u.specCall(env, x)
	}
	env.fail("unsupported spec expression %T", e)
	return Val{}
}

func (u *Unit) specIdent(env *specEnv, x *ast.Ident) Val {
	switch x.Name {
	case "true":
		return boolVal("true")
	case "false":
		return boolVal("false")
	case "nil":
		return scalar("0", SInt, types.Typ[types.UntypedNil])
	case "TZERO":
		u.decls.declConst("TZERO", SInt)
		return scalar("TZERO", SInt, nil)
	}
	if v, ok := env.vars[x.Name]; ok {
		return v
	}
	if v, ok := env.st.ghost[x.Name]; ok {
		return v
	}
	if v, ok := u.lookupLocal(env.st, x.Name, env.pos); ok {
		return v
	}
	if env.pkg != nil {
		if o := env.pkg.Scope().Lookup(x.Name); o != nil {
			switch o := o.(type) {
			case *types.Const:
				if v, ok := constToVal(u, o.Val(), o.Type()); ok {
					return v
				}
			case *types.Var:
				return u.globalVar(env.st, o)
			}
		}
	}
	env.fail("unknown identifier %q", x.Name)
	return Val{}
}

func (u *Unit) globalVar(st *State, o *types.Var) Val {
	name := "G$" + typeKey(types.NewNamed(types.NewTypeName(0, o.Pkg(), o.Name(), nil), nil, nil))
	if isSliceT(o.Type()) {
		v := Val{Kind: KSlice, T: o.Type(), Arr: smtName(name + ".arr"), Off: smtName(name + ".off"), Len: smtName(name + ".len"), Cap: smtName(name + ".cap")}
		for _, c := range []Term{v.Arr, v.Off, v.Len, v.Cap} {
			u.decls.declConst(c, SInt)
		}
		u.assumeOnce(st, u.typeAssume(v))
		return v
	}
	s := sortOf(o.Type())
	n := smtName(name)
	u.decls.declConst(n, s)
	v := scalar(n, s, o.Type())
	if types.Implements(o.Type(), errorIface) {
		// sentinel errors: non-nil and pairwise distinct (identified by a unique tag)
		u.assumeOnce(st, tLt("0", n))
		r := u.root()
		if r.assumed == nil {
			r.assumed = map[string]bool{}
		}
		if !r.assumed["sentinel:"+n] {
			r.assumed["sentinel:"+n] = true
			u.decls.declFun("sentinel_tag", []string{SInt}, SInt)
			r.axioms = append(r.axioms, tEq(tApp("sentinel_tag", n), tInt(int64(len(r.assumed)))))
		}
	}
	return v
}

var errorIface = types.Universe.Lookup("error").Type().Underlying().(*types.Interface)

func isErrorType(T types.Type) bool {
	return types.Identical(T, types.Universe.Lookup("error").Type())
}

func (u *Unit) specBinary(env *specEnv, x *ast.BinaryExpr) Val {
	a := u.specEval(env, x.X)
	b := u.specEval(env, x.Y)
	return u.binop(env, x.Op, a, b)
}

func (u *Unit) binop(env *specEnv, op token.Token, a, b Val) Val {
	// numeric coercion Int/Real
	if a.Kind == KScalar && b.Kind == KScalar && a.Sort != b.Sort {
		if a.Sort == SReal && b.Sort == SInt {
			b = scalar("(to_real "+b.S+")", SReal, a.T)
		} else if a.Sort == SInt && b.Sort == SReal {
			a = scalar("(to_real "+a.S+")", SReal, b.T)
		}
	}
	T := a.T
	if T == nil || (isUntyped(T) && b.T != nil) {
		T = b.T
	}
	switch op {
	case token.LAND:
		return boolVal(tAnd(a.S, b.S))
	case token.LOR:
		return boolVal(tOr(a.S, b.S))
	case token.EQL, token.NEQ:
		var t Term
		if a.Kind == KSlice && b.Kind == KSlice {
			// spec-level slice equality: same window of the same array (nil == nil)
			t = tAnd(tEq(a.Arr, b.Arr), tEq(a.Off, b.Off), tEq(a.Len, b.Len))
		} else if a.Kind == KSlice || b.Kind == KSlice {
			s := a
			if b.Kind == KSlice {
				s = b
			}
			t = tEq(s.Arr, "0")
		} else {
			t = tEq(a.S, b.S)
		}
		if op == token.NEQ {
			t = tNot(t)
		}
		return boolVal(t)
	case token.LSS:
		return boolVal(tLt(a.S, b.S))
	case token.LEQ:
		return boolVal(tLe(a.S, b.S))
	case token.GTR:
		return boolVal(tLt(b.S, a.S))
	case token.GEQ:
		return boolVal(tLe(b.S, a.S))
	case token.ADD:
		if a.Sort == SStr {
			return scalar(tApp("sconcat", a.S, b.S), SStr, T)
		}
		return scalar(tAdd(a.S, b.S), a.Sort, T)
	case token.SUB:
		return scalar(tSub(a.S, b.S), a.Sort, T)
	case token.MUL:
		return scalar("(* "+a.S+" "+b.S+")", a.Sort, T)
	case token.QUO:
		if a.Sort == SReal {
			return scalar("(/ "+a.S+" "+b.S+")", SReal, T)
		}
		if n, ok := isIntLit(b.S); ok && n > 0 && isUnsignedT(a.T) {
			return scalar("(div "+a.S+" "+b.S+")", SInt, T)
		}
		return scalar(goDiv(a.S, b.S), SInt, T)
	case token.REM:
		if n, ok := isIntLit(b.S); ok && n > 0 && isUnsignedT(a.T) {
			return scalar("(mod "+a.S+" "+b.S+")", SInt, T)
		}
		return scalar(goMod(a.S, b.S), SInt, T)
	case token.AND:
		if m, ok := isIntLit(b.S); ok && isMask(m) {
			return scalar("(mod "+a.S+" "+tInt(m+1)+")", SInt, T)
		}
		if m, ok := isIntLit(a.S); ok && isMask(m) {
			return scalar("(mod "+b.S+" "+tInt(m+1)+")", SInt, T)
		}
		if m, ok := isIntLit(b.S); ok && isPow2(m) {
			return scalar("(* "+tInt(m)+" (mod (div "+a.S+" "+tInt(m)+") 2))", SInt, T)
		}
	case token.SHL:
		if k, ok := isIntLit(b.S); ok && k >= 0 && k < 63 {
			return scalar("(* "+a.S+" "+tInt(1<<uint(k))+")", SInt, T)
		}
	case token.SHR:
		if k, ok := isIntLit(b.S); ok && k >= 0 && k < 63 {
			return scalar("(div "+a.S+" "+tInt(1<<uint(k))+")", SInt, T)
		}
	}
	if env != nil {
		env.fail("unsupported binary operator %s", op)
	}
	return Val{Kind: KScalar, Sort: "?"}
}

func isUnsignedT(T types.Type) bool {
	if T == nil {
		return false
	}
	b, ok := T.Underlying().(*types.Basic)
	return ok && b.Info()&types.IsUnsigned != 0
}

func isUntyped(T types.Type) bool {
	b, ok := T.(*types.Basic)
	return ok && b.Info()&types.IsUntyped != 0
}

func isMask(m int64) bool { return m > 0 && (m&(m+1)) == 0 }
func isPow2(m int64) bool { return m > 0 && (m&(m-1)) == 0 }

// Go's truncated division/modulo in terms of SMT's floored ones.
func goDiv(a, b Term) Term {
	if n, ok := isIntLit(b); ok && n > 0 {
		return fmt.Sprintf("(ite (>= %s 0) (div %s %s) (- (div (- %s) %s)))", a, a, b, a, b)
	}
	return fmt.Sprintf("(ite (>= %s 0) (ite (> %s 0) (div %s %s) (- (div %s (- %s)))) (ite (> %s 0) (- (div (- %s) %s)) (div (- %s) (- %s))))", a, b, a, b, a, b, b, a, b, a, b)
}
func goMod(a, b Term) Term {
	if n, ok := isIntLit(b); ok && n > 0 {
		return fmt.Sprintf("(ite (>= %s 0) (mod %s %s) (- (mod (- %s) %s)))", a, a, b, a, b)
	}
	return fmt.Sprintf("(- %s (* %s %s))", a, b, goDiv(a, b))
}

func (u *Unit) specSelector(env *specEnv, x *ast.SelectorExpr) Val {
	// package-qualified?
	if id, ok := x.X.(*ast.Ident); ok {
		if _, shadow := env.vars[id.Name]; !shadow {
			if _, isLocal := u.lookupLocal(env.st, id.Name, env.pos); !isLocal {
				if p := u.eng.importedPkg(env.pkg, id.Name); p != nil {
					o := p.Scope().Lookup(x.Sel.Name)
					switch o := o.(type) {
					case *types.Const:
						if v, ok := constToVal(u, o.Val(), o.Type()); ok {
							return v
						}
					case *types.Var:
						return u.globalVar(env.st, o)
					}
					env.fail("unknown package member %s.%s", id.Name, x.Sel.Name)
				}
			}
		}
	}
	base := u.specEval(env, x.X)
	return u.specField(env, base, x.Sel.Name)
}

func (u *Unit) specField(env *specEnv, base Val, name string) Val {
	if base.T == nil {
		env.fail("selector .%s on untyped spec value", name)
	}
	T := base.T
	if p, ok := T.Underlying().(*types.Pointer); ok {
		T = p.Elem()
	}
	obj, index, _ := types.LookupFieldOrMethod(T, true, nil, name)
	if obj == nil && env.pkg != nil {
		obj, index, _ = types.LookupFieldOrMethod(T, true, env.pkg, name)
	}
	if obj == nil {
		// unexported field of another package: search manually
		obj, index = lookupFieldAnyPkg(T, name)
	}
	fv, ok := obj.(*types.Var)
	if !ok {
		env.fail("no field %s in %s", name, T)
	}
	_ = fv
	ref := base.S
	cur := T
	for _, i := range index {
		stt := structOf(cur)
		f := stt.Field(i)
		v := u.fieldRead(env.st, cur, f, ref)
		ref = v.S
		cur = f.Type()
		if i == index[len(index)-1] {
			return v
		}
		if p, ok := cur.Underlying().(*types.Pointer); ok {
			cur = p.Elem()
		}
	}
	env.fail("field walk failed")
	return Val{}
}

func structOf(T types.Type) *types.Struct {
	if p, ok := T.Underlying().(*types.Pointer); ok {
		T = p.Elem()
	}
	s, _ := T.Underlying().(*types.Struct)
	return s
}

func lookupFieldAnyPkg(T types.Type, name string) (types.Object, []int) {
	s := structOf(T)
	if s == nil {
		return nil, nil
	}
	for i := 0; i < s.NumFields(); i++ {
		if s.Field(i).Name() == name {
			return s.Field(i), []int{i}
		}
	}
	for i := 0; i < s.NumFields(); i++ {
		if s.Field(i).Embedded() {
			if o, idx := lookupFieldAnyPkg(s.Field(i).Type(), name); o != nil {
				return o, append([]int{i}, idx...)
			}
		}
	}
	return nil, nil
}

// fieldRead reads field f of the struct (of type owner) at reference ref.
func (u *Unit) fieldRead(st *State, owner types.Type, f *types.Var, ref Term) Val {
	ft := f.Type()
	if isStructVal(ft) || isArrayT(ft) {
		fn := smtName("sub$" + typeKey(owner) + "." + f.Name())
		u.decls.declFun(fn, []string{SInt}, SInt)
		u.decls.declFun("owner", []string{SInt}, SInt)
		sub := tApp(fn, ref)
		// embedded objects live in the negative reference space and know their owner
		// ... and which field they are: two embedded objects of one owner are different objects
		u.decls.declFun("subslot", []string{SInt}, SInt)
		hh := fnv.New32a()
		hh.Write([]byte(fn))
		u.assumeOnce(st, tAnd(tLt(sub, "0"), tEq(tApp("owner", sub), ref), tEq(tApp("subslot", sub), fmt.Sprint(hh.Sum32()))))
		return scalar(sub, SInt, ft)
	}
	return u.loadAt(st, fieldHeap(owner, f.Name()), ft, ref)
}

func isArrayT(T types.Type) bool {
	if T == nil {
		return false
	}
	_, ok := T.Underlying().(*types.Array)
	return ok
}

func (u *Unit) specIndex(env *specEnv, base, idx Val) Val {
	if base.Kind == KSlice {
		st := base.T.Underlying().(*types.Slice)
		return u.loadElem(env.st, st.Elem(), base.Arr, tAdd(base.Off, idx.S))
	}
	if base.T != nil {
		switch t := base.T.Underlying().(type) {
		case *types.Array:
			return u.loadElem(env.st, t.Elem(), base.S, idx.S)
		case *types.Map:
			return u.mapGet(env.st, t, base.S, idx)
		case *types.Pointer:
			if a, ok := t.Elem().Underlying().(*types.Array); ok {
				return u.loadElem(env.st, a.Elem(), base.S, idx.S)
			}
		}
	}
	if base.Sort == SStr {
		return scalar(tApp("sat", base.S, idx.S), SInt, types.Typ[types.Uint8])
	}
	if strings.HasPrefix(base.Sort, "(Array ") {
		return scalar(tSel(base.S, idx.S), arrayElemSort(base.Sort), nil)
	}
	env.fail("cannot index value of sort %s", base.Sort)
	return Val{}
}

func arrayElemSort(s string) string {
	// (Array K V) -> V
	inner := s[len("(Array ") : len(s)-1]
	parts := splitTop(inner, ' ')
	return strings.TrimSpace(strings.Join(parts[1:], " "))
}

func arrayKeySort(s string) string {
	inner := s[len("(Array ") : len(s)-1]
	parts := splitTop(inner, ' ')
	return strings.TrimSpace(parts[0])
}

func (u *Unit) specCall(env *specEnv, x *ast.CallExpr) Val {
	fname := ""
	switch f := x.Fun.(type) {
	case *ast.Ident:
		fname = f.Name
	case *ast.SelectorExpr:
		if id, ok := f.X.(*ast.Ident); ok {
			fname = id.Name + "." + f.Sel.Name
		}
	case *ast.ParenExpr, *ast.StarExpr, *ast.ArrayType:
		// conversion to a composite type, e.g. []byte(s) – not supported in specs
	}
	args := func() []Val {
		var vs []Val
		for _, a := range x.Args {
			vs = append(vs, u.specEval(env, a))
		}
		return vs
	}
	switch fname {
	case "__imp":
		a, b := u.specEval(env, x.Args[0]), u.specEval(env, x.Args[1])
		return boolVal(tImp(a.S, b.S))
	case "__iff":
		a, b := u.specEval(env, x.Args[0]), u.specEval(env, x.Args[1])
		return boolVal(tEq(a.S, b.S))
	case "__forall", "__exists":
		lit := x.Args[0].(*ast.BasicLit)
		binders, _ := strconv.Unquote(lit.Value)
		ps, err := parseParams(binders)
		if err != nil {
			env.fail("bad binders %q", binders)
		}
		ne := env
		var bs []string
		var bvs []string
		var guards []Term
		for _, p := range ps {
			sort, T, isSl := env.specType(p.Type)
			if isSl {
				env.fail("cannot quantify over slices")
			}
			env.depth++
			bn := fmt.Sprintf("%s!q%d", p.Name, env.u.nextQ())
			bs = append(bs, "("+bn+" "+sort+")")
			bvs = append(bvs, bn)
			v := scalar(bn, sort, T)
			ne = ne.with(p.Name, v)
			_ = guards
		}
		body := u.specEval(ne, x.Args[1])
		q := "forall"
		if fname == "__exists" {
			q = "exists"
		}
		bt := body.S
		if len(bvs) == 1 {
			// explicit triggers: every array read whose index is exactly the bound variable
			if pats := selectPatterns(bt, bvs[0], nil); len(pats) > 0 && len(pats) <= 4 {
				var ps []string
				for _, p := range pats {
					ps = append(ps, ":pattern ("+p+")")
				}
				bt = "(! " + bt + " " + strings.Join(ps, " ") + ")"
			}
		}
		return boolVal("(" + q + " (" + strings.Join(bs, " ") + ") " + bt + ")")
	case "old":
		if env.old == nil {
			env.fail("old() not available here")
		}
		n := *env
		n.st = env.old
		// locals referenced inside old() are entry-state values: parameters only
		return u.specEval(&n, x.Args[0])
	case "len":
		v := u.specEval(env, x.Args[0])
		return u.lenOf(env.st, v, env)
	case "cap":
		v := u.specEval(env, x.Args[0])
		if v.Kind == KSlice {
			return intVal(v.Cap)
		}
		env.fail("cap of non-slice")
	case "ite":
		a := args()
		if a[1].Kind == KSlice {
			env.fail("ite on slices")
		}
		return scalar(tIte(a[0].S, a[1].S, a[2].S), a[1].Sort, a[1].T)
	case "has":
		a := args()
		mt, ok := a[0].T.Underlying().(*types.Map)
		if !ok {
			env.fail("has() needs a map")
		}
		return boolVal(u.mapHas(env.st, mt, a[0].S, a[1]))
	case "arr": // arr(s) = identity of the backing array of slice s
		v := u.specEval(env, x.Args[0])
		if v.Kind != KSlice {
			env.fail("arr() needs a slice")
		}
		return intVal(v.Arr)
	case "off":
		v := u.specEval(env, x.Args[0])
		return intVal(v.Off)
	case "content": // content(s): the whole element array of the backing array
		v := u.specEval(env, x.Args[0])
		if v.Kind == KSlice {
			el := v.T.Underlying().(*types.Slice).Elem()
			return scalar(u.elemArray(env.st, el, v.Arr), sArr(SInt, sortOf(el)), nil)
		}
		if at, ok := v.T.Underlying().(*types.Array); ok {
			return scalar(u.elemArray(env.st, at.Elem(), v.S), sArr(SInt, sortOf(at.Elem())), nil)
		}
		env.fail("content() needs a slice or array")
	case "dyntype":
		v := u.specEval(env, x.Args[0])
		return intVal(tApp("dyntype", v.S))
	case "unbox":
		// unbox(v, T): the value of Go type T stored in interface value v
		v := u.specEval(env, x.Args[0])
		var b strings.Builder
		printNode(&b, u.eng.fset, x.Args[1])
		_, T, _ := env.specType(strings.Join(strings.Fields(b.String()), ""))
		if T == nil {
			env.fail("unbox: unknown type")
		}
		return u.unbox(env.st, v.S, T)
	case "hastype":
		v := u.specEval(env, x.Args[0])
		var b strings.Builder
		printNode(&b, u.eng.fset, x.Args[1])
		_, T, _ := env.specType(strings.Join(strings.Fields(b.String()), ""))
		if T == nil {
			env.fail("hastype: unknown type")
		}
		return boolVal(u.hasDynType(env.st, v.S, T))
	case "typeid":
		// typeid(T) : the dynamic type tag of Go type T
		var b strings.Builder
		printNode(&b, u.eng.fset, x.Args[0])
		_, T, _ := env.specType(strings.Join(strings.Fields(b.String()), ""))
		return intVal(u.typeID(T))
	case "cast":
		// cast(v, T): v viewed at Go type T (the dynamic type is assumed, e.g. the single implementation of an interface)
		v := u.specEval(env, x.Args[0])
		var b strings.Builder
		printNode(&b, u.eng.fset, x.Args[1])
		_, T, isSl := env.specType(strings.Join(strings.Fields(b.String()), ""))
		if T == nil || isSl {
			env.fail("cast: unknown type")
		}
		v.T = T
		return v
	case "bstr":
		// bstr(b): string(b) for the current content of byte slice b
		v := u.specEval(env, x.Args[0])
		if v.Kind != KSlice {
			env.fail("bstr() needs a slice")
		}
		return scalar(u.strOfBytes(env.st, v), SStr, types.Typ[types.String])
	case "strof":
		// strof(b): the string a []byte(s) conversion result spells
		v := u.specEval(env, x.Args[0])
		if v.Kind != KSlice {
			env.fail("strof() needs a slice")
		}
		u.decls.declFun("strof", []string{SInt}, SStr)
		return scalar(tApp("strof", v.Arr), SStr, types.Typ[types.String])
	case "frontier":
		return intVal(env.st.frontier)
	case "hasmethods":
		// hasmethods(v, M1, M2...): the dynamic type of interface value v has these methods - the same predicate a type
		// assertion to the anonymous interface { M1(...); M2(...) } uses in the code (names only, sorted)
		v := u.specEval(env, x.Args[0])
		var ms []string
		for _, a := range x.Args[1:] {
			if id, ok := a.(*ast.Ident); ok {
				ms = append(ms, id.Name)
			}
		}
		sort.Strings(ms)
		fn := smtName("implements$iface{" + strings.Join(ms, ",") + "}")
		u.decls.declFun(fn, []string{SInt}, SBool)
		return boolVal(tAnd(tNot(tEq(v.S, "0")), tApp(fn, tApp("dyntype", v.S))))
	case "holds":
		// holds(x.mu): this goroutine holds the lock x.mu at this point (for on_close conditions)
		se, ok := x.Args[0].(*ast.SelectorExpr)
		if !ok {
			panic(specError{env.where + ": holds() needs x.mu"})
		}
		owner := u.specEval(env, se.X)
		key := owner.S + "." + se.Sel.Name
		_, w := env.st.held[key]
		_, r := env.st.held[key+"#r"]
		return scalar(tBool(w || r), SBool, types.Typ[types.Bool])
	case "errmatch":
		// errmatch(err, target): what errors.Is(err, target) answers (the engine's err_is relation)
		a := u.specEval(env, x.Args[0])
		b := u.specEval(env, x.Args[1])
		u.decls.declFun("err_is", []string{SInt, SInt}, SBool)
		return scalar(tApp("err_is", a.S, b.S), SBool, types.Typ[types.Bool])
	case "lastfv":
		// lastfv(): the function value most recently called through a variable (calls the engine cannot resolve)
		return scalar(tSel(u.heapTerm(env.st, "G$lastfv", sArr(SInt, SInt)), "0"), SInt, nil)
	case "aval":
		// aval(x.f): the current value of the sync/atomic field x.f
		v := u.specEval(env, x.Args[0])
		heap := atomicHeapOf(v.T)
		sort := SInt
		var T types.Type = types.Typ[types.Int64]
		if heap == "ATOM$bool" {
			sort, T = SBool, types.Typ[types.Bool]
		}
		return scalar(tSel(u.heapTerm(env.st, heap, sArr(SInt, sort)), v.S), sort, T)
	case "won":
		// won(x.f): this goroutine has won a CompareAndSwap transition on the state word x.f during this call
		v := u.specEval(env, x.Args[0])
		if g, ok := env.st.ghost["$castok:"+v.S]; ok {
			return boolVal(g.S)
		}
		return boolVal("false")
	case "fresh":
		// fresh(x): x was allocated during the call (not before the pre-state)
		if env.old == nil {
			env.fail("fresh() needs a pre-state")
		}
		v := u.specEval(env, x.Args[0])
		ref := v.S
		if v.Kind == KSlice {
			ref = v.Arr
		}
		return boolVal(tAnd(tLe(env.old.frontier, ref), tLt(ref, env.st.frontier)))
	case "now":
		return intVal(u.clockTerm(env.st))
	}
	if T, ok := basicConv[fname]; ok && len(x.Args) == 1 {
		v := u.specEval(env, x.Args[0])
		return u.convertInt(v, T)
	}
	if fname == "string" && len(x.Args) == 1 {
		v := u.specEval(env, x.Args[0])
		if v.Sort == SStr {
			return v
		}
		if v.Kind == KSlice {
			return scalar(u.strOfBytes(env.st, v), SStr, types.Typ[types.String])
		}
		env.fail("string() conversion unsupported")
	}
	if fname == "float64" && len(x.Args) == 1 {
		v := u.specEval(env, x.Args[0])
		if v.Sort == SInt {
			return scalar("(to_real "+v.S+")", SReal, types.Typ[types.Float64])
		}
		return v
	}
	if g, ok := u.eng.cs.Ghosts[fname]; ok {
		return u.ghostRead(env, g, args())
	}
	if sf, ok := u.eng.cs.Specs[fname]; ok {
		return u.specFuncApp(env, sf, args())
	}
	// method-like pure accessors are not supported; report
	env.fail("unknown spec function %q", fname)
	return Val{}
}

func (u *Unit) nextQ() int {
	r := u.root()
	r.nfresh++
	return r.nfresh
}

func (u *Unit) lenOf(st *State, v Val, env *specEnv) Val {
	if v.Kind == KSlice {
		return intVal(v.Len)
	}
	if v.Sort == SStr {
		return intVal(tApp("slen", v.S))
	}
	if v.T != nil {
		switch t := v.T.Underlying().(type) {
		case *types.Array:
			return intVal(tInt(t.Len()))
		case *types.Map:
			return intVal(u.mapCard(st, t, v.S))
		case *types.Pointer:
			if a, ok := t.Elem().Underlying().(*types.Array); ok {
				return intVal(tInt(a.Len()))
			}
		case *types.Chan:
			return intVal(u.fresh("chanlen", SInt))
		}
	}
	if env != nil {
		env.fail("len of unsupported value")
	}
	return intVal(u.fresh("len", SInt))
}

func (u *Unit) convertInt(v Val, T types.Type) Val {
	if v.Sort == SReal {
		// float -> int: truncation
		t := fmt.Sprintf("(ite (>= %s 0.0) (to_int %s) (- (to_int (- %s))))", v.S, v.S, v.S)
		return scalar(t, SInt, T)
	}
	if v.Sort != SInt {
		return scalar(v.S, v.Sort, T)
	}
	// if source range is within the target range the conversion is the identity
	if lo, hi, ok := intRange(T); ok {
		if v.T != nil {
			if slo, shi, ok2 := intRange(v.T); ok2 && !isUntyped(v.T) && rangeWithin(slo, shi, lo, hi) {
				return scalar(v.S, SInt, T)
			}
		}
		if n, ok := isIntLit(v.S); ok {
			_ = n
			return scalar(v.S, SInt, T)
		}
		mod, signed, _ := intModulus(T)
		if !signed {
			return scalar("(mod "+v.S+" "+mod+")", SInt, T)
		}
		// signed wrap: ((v - lo) mod M) + lo
		return scalar("(+ (mod (- "+v.S+" "+lo+") "+mod+") "+lo+")", SInt, T)
	}
	return scalar(v.S, SInt, T)
}

func rangeWithin(slo, shi, lo, hi string) bool {
	p := func(s string) (float64, bool) {
		s = strings.TrimSuffix(strings.TrimPrefix(s, "(- "), ")")
		f, err := strconv.ParseFloat(s, 64)
		return f, err == nil
	}
	neg := func(s string) bool { return strings.HasPrefix(s, "(- ") }
	a, ok1 := p(slo)
	b, ok2 := p(shi)
	c, ok3 := p(lo)
	d, ok4 := p(hi)
	if !(ok1 && ok2 && ok3 && ok4) {
		return false
	}
	if neg(slo) {
		a = -a
	}
	if neg(lo) {
		c = -c
	}
	return a >= c && b <= d
}

func (u *Unit) ghostRead(env *specEnv, g *GhostField, args []Val) Val {
	if len(args) != len(g.Params) {
		env.fail("ghost %s: %d args, want %d", g.Name, len(args), len(g.Params))
	}
	rs, rT, _ := env.specType(g.Ret)
	sort := rs
	for i := len(g.Params) - 1; i >= 0; i-- {
		ks, _, _ := env.specType(g.Params[i].Type)
		sort = sArr(ks, sort)
	}
	t := u.heapTerm(env.st, "G$"+g.Name, sort)
	if r := u.root(); !r.ghostBounded[g.Name] && r.frontier0 != "" {
		if r.ghostBounded == nil {
			r.ghostBounded = map[string]bool{}
		}
		r.ghostBounded[g.Name] = true
		u.ghostRefBound(env.st, env, g, smtName("G$"+g.Name)+"!0", sort, r.frontier0, true)
	}
	for _, a := range args {
		t = tSel(t, a.S)
	}
	return scalar(t, rs, rT)
}

func (u *Unit) ghostSort(env *specEnv, g *GhostField) string {
	rs, _, _ := env.specType(g.Ret)
	sort := rs
	for i := len(g.Params) - 1; i >= 0; i-- {
		ks, _, _ := env.specType(g.Params[i].Type)
		sort = sArr(ks, sort)
	}
	return sort
}

func (u *Unit) specFuncApp(env *specEnv, sf *SpecFunc, args []Val) Val {
	if len(args) != len(sf.Params) {
		env.fail("spec func %s: %d args, want %d", sf.Name, len(args), len(sf.Params))
	}
	fenv := &specEnv{u: u, st: env.st, old: env.old, vars: map[string]Val{}, pkg: u.eng.pkgTypes(sf.PkgPath, env.pkg), where: sf.Where, depth: env.depth + 1}
	rs, rT, _ := fenv.specType(sf.Ret)
	if sf.Body != nil && !sf.Rec {
		if env.depth > 40 {
			env.fail("spec function nesting too deep (recursive without 'rec'?)")
		}
		for i, p := range sf.Params {
			v := args[i]
			_, pT, _ := fenv.specType(p.Type)
			if pT != nil && v.Kind == KScalar && (v.T == nil || isUntyped(v.T)) {
				v.T = pT
			}
			fenv.vars[p.Name] = v
		}
		return u.specEval(fenv, sf.Body)
	}
	// uninterpreted (or recursive: declared + defining axiom added once)
	var sorts []string
	var ts []Term
	for i, p := range sf.Params {
		s, _, isSl := fenv.specType(p.Type)
		if isSl {
			env.fail("slice parameter in uninterpreted spec func")
		}
		sorts = append(sorts, s)
		ts = append(ts, args[i].S)
	}
	name := "sf$" + sf.Name
	u.decls.declFun(name, sorts, rs)
	if sf.Rec && sf.Body != nil {
		r := u.root()
		if r.assumed == nil {
			r.assumed = map[string]bool{}
		}
		if !r.assumed["rec:"+sf.Name] {
			r.assumed["rec:"+sf.Name] = true
			benv := &specEnv{u: u, st: env.st, old: env.old, vars: map[string]Val{}, pkg: fenv.pkg, where: sf.Where}
			var bs, bn []string
			for i, p := range sf.Params {
				_, pT, _ := fenv.specType(p.Type)
				n := fmt.Sprintf("%s!r%d", p.Name, u.nextQ())
				bs = append(bs, "("+n+" "+sorts[i]+")")
				bn = append(bn, n)
				benv.vars[p.Name] = scalar(n, sorts[i], pT)
			}
			body := u.specEval(benv, sf.Body)
			app := tApp(name, bn...)
			r.axioms = append(r.axioms, fmt.Sprintf("(forall (%s) (! (= %s %s) :pattern (%s)))", strings.Join(bs, " "), app, body.S, app))
		}
	}
	return scalar(tApp(name, ts...), rs, rT)
}
