package main

import (
	"fmt"
	"go/ast"
	"go/types"
	"strings"
)

type VKind int

const (
	KScalar VKind = iota
	KSlice
	KTuple
)

// Val is a symbolic Go (or spec) value.
type Val struct {
	Kind               VKind
	Sort               string     // SMT sort when scalar
	T                  types.Type // Go type; nil for spec-only values
	S                  Term
	Arr, Off, Len, Cap Term // slice components
	Elems              []Val
	Closure            *closure // non-nil for function literals
}

type closure struct {
	lit *ast.FuncLit
	id  int
}

func scalar(t Term, sort string, T types.Type) Val { return Val{Kind: KScalar, Sort: sort, T: T, S: t} }
func intVal(t Term) Val                            { return scalar(t, SInt, types.Typ[types.Int]) }
func boolVal(t Term) Val                           { return scalar(t, SBool, types.Typ[types.Bool]) }

func (v Val) String() string {
	switch v.Kind {
	case KSlice:
		return fmt.Sprintf("slice(%s,%s,%s,%s)", v.Arr, v.Off, v.Len, v.Cap)
	case KTuple:
		var p []string
		for _, e := range v.Elems {
			p = append(p, e.String())
		}
		return "(" + strings.Join(p, ", ") + ")"
	}
	return v.S
}

// components flattens a value into scalar SMT terms with their sorts.
func (v Val) components() (terms []Term, sorts []string) {
	switch v.Kind {
	case KSlice:
		return []Term{v.Arr, v.Off, v.Len, v.Cap}, []string{SInt, SInt, SInt, SInt}
	case KTuple:
		for _, e := range v.Elems {
			t, s := e.components()
			terms = append(terms, t...)
			sorts = append(sorts, s...)
		}
		return
	}
	return []Term{v.S}, []string{v.Sort}
}

func (v Val) withComponents(ts []Term) Val {
	switch v.Kind {
	case KSlice:
		v.Arr, v.Off, v.Len, v.Cap = ts[0], ts[1], ts[2], ts[3]
		return v
	case KTuple:
		n := v
		n.Elems = make([]Val, len(v.Elems))
		i := 0
		for k, e := range v.Elems {
			c, _ := e.components()
			n.Elems[k] = e.withComponents(ts[i : i+len(c)])
			i += len(c)
		}
		return n
	}
	v.S = ts[0]
	return v
}

// ---- Go type -> model ----

func isNamed(T types.Type, pkg, name string) bool {
	T = types.Unalias(T)
	n, ok := T.(*types.Named)
	if !ok {
		return false
	}
	o := n.Obj()
	if o.Name() != name {
		return false
	}
	if o.Pkg() == nil {
		return pkg == ""
	}
	return o.Pkg().Path() == pkg
}

// opaque struct types: no fields are modelled, methods are built-in.
func isOpaqueStruct(T types.Type) bool {
	T = types.Unalias(T)
	n, ok := T.(*types.Named)
	if !ok || n.Obj().Pkg() == nil {
		return false
	}
	switch n.Obj().Pkg().Path() {
	case "sync":
		return true
	case "sync/atomic":
		return true
	}
	return false
}

func isTimeTime(T types.Type) bool { return isNamed(T, "time", "Time") }

func isStructVal(T types.Type) bool {
	if T == nil || isTimeTime(T) {
		return false
	}
	_, ok := T.Underlying().(*types.Struct)
	return ok
}

func isSliceT(T types.Type) bool {
	if T == nil {
		return false
	}
	_, ok := T.Underlying().(*types.Slice)
	return ok
}

// sortOf gives the SMT sort of a scalar-modelled Go type ("" for slices).
func sortOf(T types.Type) string {
	if T == nil {
		return SInt
	}
	if isTimeTime(T) {
		return SInt
	}
	switch t := T.Underlying().(type) {
	case *types.Basic:
		switch {
		case t.Info()&types.IsBoolean != 0:
			return SBool
		case t.Info()&types.IsInteger != 0:
			return SInt
		case t.Info()&types.IsFloat != 0:
			return SReal
		case t.Info()&types.IsString != 0:
			return SStr
		case t.Kind() == types.UntypedNil, t.Kind() == types.UnsafePointer:
			return SInt
		}
		return SInt
	case *types.Array:
		return SInt // boxed: a reference to the element storage
	case *types.Slice:
		return ""
	case *types.Tuple:
		return ""
	}
	return SInt // pointers, maps, chans, funcs, interfaces, boxed structs: references
}

// intRange returns the numeric range of an integer type.
func intRange(T types.Type) (lo, hi string, ok bool) {
	if T == nil {
		return
	}
	b, isB := T.Underlying().(*types.Basic)
	if !isB || b.Info()&types.IsInteger == 0 {
		return
	}
	switch b.Kind() {
	case types.Int8:
		return "(- 128)", "127", true
	case types.Int16:
		return "(- 32768)", "32767", true
	case types.Int32:
		return "(- 2147483648)", "2147483647", true
	case types.Int, types.Int64, types.UntypedInt:
		return "(- 9223372036854775808)", "9223372036854775807", true
	case types.Uint8:
		return "0", "255", true
	case types.Uint16:
		return "0", "65535", true
	case types.Uint32:
		return "0", "4294967295", true
	case types.Uint, types.Uint64, types.Uintptr:
		return "0", "18446744073709551615", true
	}
	return
}

func intModulus(T types.Type) (mod string, signed bool, ok bool) {
	b, isB := T.Underlying().(*types.Basic)
	if !isB || b.Info()&types.IsInteger == 0 {
		return
	}
	switch b.Kind() {
	case types.Int8:
		return "256", true, true
	case types.Int16:
		return "65536", true, true
	case types.Int32:
		return "4294967296", true, true
	case types.Int, types.Int64:
		return "18446744073709551616", true, true
	case types.Uint8:
		return "256", false, true
	case types.Uint16:
		return "65536", false, true
	case types.Uint32:
		return "4294967296", false, true
	case types.Uint, types.Uint64, types.Uintptr:
		return "18446744073709551616", false, true
	}
	return
}

// typeKey gives a stable short string for a type, used in heap names.
func typeKey(T types.Type) string {
	T = types.Unalias(T)
	switch t := T.(type) {
	case *types.Named:
		o := t.Obj()
		if o.Pkg() == nil {
			return o.Name()
		}
		p := o.Pkg().Path()
		p = strings.TrimPrefix(p, "tunnox-core/internal/")
		return p + "." + o.Name()
	case *types.Pointer:
		return "*" + typeKey(t.Elem())
	case *types.Slice:
		return "[]" + typeKey(t.Elem())
	case *types.Array:
		return fmt.Sprintf("[%d]%s", t.Len(), typeKey(t.Elem()))
	case *types.Map:
		return "map[" + typeKey(t.Key()) + "]" + typeKey(t.Elem())
	case *types.Basic:
		return t.Name()
	case *types.Interface:
		if t.Empty() {
			return "any"
		}
		// anonymous interfaces are told apart by their method sets
		var ms []string
		for i := 0; i < t.NumMethods(); i++ {
			ms = append(ms, t.Method(i).Name())
		}
		return "iface{" + strings.Join(ms, ",") + "}"
	case *types.Struct:
		return "struct"
	case *types.Signature:
		return "func"
	case *types.Chan:
		return "chan"
	case *types.TypeParam:
		return "tparam." + t.Obj().Name()
	}
	return T.String()
}

// ---- State ----

type deferred struct {
	call *ast.CallExpr
	recv *Val
	args []Val
	clo  *closure
}

type State struct {
	vars     map[types.Object]Val
	heap     map[string]Term
	pc       []Term
	frontier Term
	defers   []deferred
	held     map[string]bool // locks currently held (by printed receiver expr)
	ghost    map[string]Val  // ghost locals / let-bindings
	trace    []string        // branch decisions, for reporting
	decPC    []Term          // progress assumptions, visible to termination obligations only
	old      *State          // snapshot that old() refers to (entry, or first lock acquisition)
}

func (s *State) fork() *State {
	n := &State{frontier: s.frontier, old: s.old}
	n.vars = make(map[types.Object]Val, len(s.vars))
	for k, v := range s.vars {
		n.vars[k] = v
	}
	n.heap = make(map[string]Term, len(s.heap))
	for k, v := range s.heap {
		n.heap[k] = v
	}
	n.pc = s.pc[:len(s.pc):len(s.pc)]
	n.defers = s.defers[:len(s.defers):len(s.defers)]
	n.held = make(map[string]bool, len(s.held))
	for k, v := range s.held {
		n.held[k] = v
	}
	n.ghost = make(map[string]Val, len(s.ghost))
	for k, v := range s.ghost {
		n.ghost[k] = v
	}
	n.trace = s.trace[:len(s.trace):len(s.trace)]
	n.decPC = s.decPC[:len(s.decPC):len(s.decPC)]
	return n
}

// allocSymsNow: the allocation symbols of the unit being generated (an allocated reference is never nil; a path that
// assumes it is nil is dead and is cut at once instead of being carried along as a vacuous state).
var allocSymsNow map[Term]bool

func (s *State) assume(t Term) {
	if t == "true" {
		return
	}
	if strings.HasPrefix(t, "(= ") && strings.HasSuffix(t, " 0)") {
		if x := t[3 : len(t)-3]; allocSymsNow[x] {
			t = "false"
		}
	}
	s.pc = append(s.pc, t)
}
