package main

import (
	"os"
	"fmt"
	"go/ast"
	"go/token"
	"go/types"
	"regexp"
	"strconv"
	"strings"
)

type jump struct {
	st    *State
	label string
}

type flow struct {
	normal []*State
	brk    []jump
	cont   []jump
}

type retState struct {
	st   *State
	vals []Val
}

type frame struct {
	inline  bool
	returns []retState
	sig     *types.Signature
	resObjs []types.Object
	ftype   *ast.FuncType
}

const maxPaths = 4000

var frames = map[*Unit][]*frame{}

func (u *Unit) topFrame() *frame {
	r := u.root()
	f := frames[r]
	return f[len(f)-1]
}
func (u *Unit) pushFrame(f *frame) { r := u.root(); frames[r] = append(frames[r], f) }
func (u *Unit) popFrame()         { r := u.root(); frames[r] = frames[r][:len(frames[r])-1] }

// ---- merging ----

func (u *Unit) merge(base *State, sts []*State) *State {
	if len(sts) == 0 {
		return nil
	}
	if len(sts) == 1 {
		return sts[0]
	}
	if c := u.root().contract; c != nil && c.Flags["nomerge"] != "" && u.root().inlining == 0 {
		return nil // `flag nomerge`: keep the paths of this function apart (ite terms in index arithmetic defeat the triggers)
	}
	n0 := len(base.pc)
	for _, s := range sts {
		if len(s.pc) < n0 || len(s.defers) != len(sts[0].defers) {
			return nil
		}
		for k, h := range s.held {
			if sts[0].held[k] != h {
				return nil
			}
		}
		if len(s.held) != len(sts[0].held) {
			return nil
		}
	}
	conds := make([]Term, len(sts))
	for i, s := range sts {
		conds[i] = tAnd(s.pc[n0:]...)
		// quantified facts buried under a disjunction cost the solvers dearly: keep such paths apart
		if u.root().inlining == 0 && (strings.Contains(conds[i], "(forall ") || strings.Contains(conds[i], "(exists ")) {
			return nil
		}
	}
	m := sts[0].fork()
	m.pc = base.pc[:n0:n0]
	m.pc = append(m.pc, tOr(conds...))
	pick := func(get func(*State) Term) Term {
		t := get(sts[len(sts)-1])
		for i := len(sts) - 2; i >= 0; i-- {
			t = tIte(conds[i], get(sts[i]), t)
		}
		return t
	}
	// variables present in all states
	for o, v0 := range sts[0].vars {
		same := true
		all := true
		for _, s := range sts[1:] {
			v, ok := s.vars[o]
			if !ok {
				all = false
				break
			}
			if v.String() != v0.String() {
				same = false
			}
		}
		if !all {
			delete(m.vars, o)
			continue
		}
		if same {
			continue
		}
		c0, _ := v0.components()
		nc := make([]Term, len(c0))
		okShape := true
		for _, s := range sts[1:] {
			cs, _ := s.vars[o].components()
			if len(cs) != len(c0) {
				okShape = false
			}
		}
		if !okShape {
			delete(m.vars, o)
			continue
		}
		for k := range c0 {
			kk := k
			nc[k] = pick(func(s *State) Term { c, _ := s.vars[o].components(); return c[kk] })
		}
		mv := v0.withComponents(nc)
		mv.Closure = nil
		m.vars[o] = mv
	}
	for g, v0 := range sts[0].ghost {
		same := true
		all := true
		for _, s := range sts[1:] {
			v, ok := s.ghost[g]
			if !ok {
				all = false
				break
			}
			if v.String() != v0.String() {
				same = false
			}
		}
		if !all {
			delete(m.ghost, g)
			continue
		}
		if !same && v0.Kind == KScalar {
			gg := g
			m.ghost[g] = scalar(pick(func(s *State) Term { return s.ghost[gg].S }), v0.Sort, v0.T)
		}
	}
	// heaps
	names := map[string]bool{}
	for _, s := range sts {
		for h := range s.heap {
			names[h] = true
		}
	}
	for h := range names {
		sort := u.root().heapSort[h]
		hh := h
		get := func(s *State) Term {
			if t, ok := s.heap[hh]; ok {
				return t
			}
			if t, ok := base.heap[hh]; ok {
				return t
			}
			t := smtName(hh) + "!0"
			u.decls.declConst(t, sort)
			return t
		}
		t0 := get(sts[0])
		same := true
		for _, s := range sts[1:] {
			if get(s) != t0 {
				same = false
			}
		}
		if same {
			m.heap[h] = t0
		} else {
			m.heap[h] = pick(get)
		}
	}
	m.frontier = pick(func(s *State) Term { return s.frontier })
	m.trace = base.trace
	return m
}

// mergeAll merges if possible, otherwise returns the states unchanged.
func (u *Unit) mergeAll(base *State, sts []*State) []*State {
	if len(sts) <= 1 {
		return sts
	}
	if m := u.merge(base, sts); m != nil {
		return []*State{m}
	}
	return sts
}

// ---- statements ----

func (u *Unit) execBlock(sts []*State, stmts []ast.Stmt) flow {
	var out flow
	cur := sts
	for _, s := range stmts {
		if len(cur) == 0 {
			break
		}
		var next []*State
		for _, st := range cur {
			f := u.execStmt(st, s)
			next = append(next, f.normal...)
			out.brk = append(out.brk, f.brk...)
			out.cont = append(out.cont, f.cont...)
		}
		cur = next
		u.root().paths += len(cur)
		lim := 160
		if c := u.root().contract; c != nil && c.Flags["nomerge"] != "" {
			lim = 2000
		}
		if len(cur) > lim || u.root().paths > maxPaths*50 {
			u.reject("path explosion (%d live states)", len(cur))
			cur = cur[:1]
		}
	}
	out.normal = cur
	return out
}

func (u *Unit) execStmt(st *State, s ast.Stmt) flow {
	if u.root().rejected != "" {
		return flow{}
	}
	switch x := s.(type) {
	case *ast.BlockStmt:
		return u.execBlock([]*State{st}, x.List)
	case *ast.EmptyStmt:
		return flow{normal: []*State{st}}
	case *ast.ExprStmt:
		if call, ok := ast.Unparen(x.X).(*ast.CallExpr); ok {
			if rets, ok := u.inlinePaths(st, call); ok {
				var outs []*State
				for _, r := range rets {
					outs = append(outs, u.alive(r.st).normal...)
				}
				return flow{normal: outs}
			}
		}
		u.eval(st, x.X)
		return u.alive(st)
	case *ast.AssignStmt:
		if call := appendAssign(u, x); call != nil {
			// x = append(s, e...) : explore "fits in place" and "reallocates" as two paths (keeps each query simple)
			var outs []*State
			for _, mode := range []string{"fits", "grows"} {
				b := st.fork()
				b.ghost["$appendMode"] = scalar(mode, "mode", nil)
				u.execAssign(b, x)
				delete(b.ghost, "$appendMode")
				outs = append(outs, u.alive(b).normal...)
			}
			return flow{normal: outs}
		}
		if (x.Tok == token.ASSIGN || x.Tok == token.DEFINE) && len(x.Rhs) == 1 {
			// x, y := f(...) with an inlinable f that returns on several paths: continue path by path (no merge)
			if call, ok := ast.Unparen(x.Rhs[0]).(*ast.CallExpr); ok {
				simple := true
				for _, l := range x.Lhs {
					if _, isId := l.(*ast.Ident); !isId {
						simple = false // evaluation order of composite left-hand sides: keep the merged route
					}
				}
				if simple {
					base := st.fork()
					work := st.fork()
					if rets, ok := u.inlinePaths(work, call); ok {
						var sig *types.Signature
						name := "closure"
						if fn := u.calleeFunc(call); fn != nil {
							sig = fn.Type().(*types.Signature)
							name = fn.Name()
						} else {
							sig, _ = u.typeOf(call.Fun).Underlying().(*types.Signature)
						}
						if sig == nil {
							u.execAssign(st, x)
							return u.alive(st)
						}
						if v, merged := u.mergeRets(st, base, rets, sig, name); merged {
							vals := []Val{v}
							if v.Kind == KTuple {
								vals = v.Elems
							}
							for i, l := range x.Lhs {
								if i < len(vals) {
									u.assignTok(st, l, vals[i], x.Tok)
								}
							}
							return u.alive(st)
						}
						// the return states cannot be merged (quantified facts, diverging heaps): go on path by path
						var outs []*State
						for _, r := range rets {
							for i, l := range x.Lhs {
								if i < len(r.vals) {
									u.assignTok(r.st, l, r.vals[i], x.Tok)
								}
							}
							outs = append(outs, u.alive(r.st).normal...)
						}
						return flow{normal: outs}
					}
				}
			}
		}
		u.execAssign(st, x)
		return u.alive(st)
	case *ast.IncDecStmt:
		v := u.eval(st, x.X)
		one := scalar("1", SInt, v.T)
		op := token.ADD
		if x.Tok == token.DEC {
			op = token.SUB
		}
		r := u.binop(nil, op, v, one)
		r.T = v.T
		if _, _, ok := intRange(v.T); ok {
			if b, isB := v.T.Underlying().(*types.Basic); isB && b.Kind() != types.Int && b.Kind() != types.Int64 {
				r = u.convertIntForce(r, v.T)
			}
		}
		u.assign(st, x.X, r)
		return u.alive(st)
	case *ast.DeclStmt:
		gd, ok := x.Decl.(*ast.GenDecl)
		if !ok || gd.Tok != token.VAR {
			return flow{normal: []*State{st}}
		}
		for _, sp := range gd.Specs {
			vs := sp.(*ast.ValueSpec)
			if len(vs.Values) == 0 {
				for _, n := range vs.Names {
					o := u.info().ObjectOf(n)
					if o != nil {
						st.vars[o] = u.zeroVal(st, o.Type())
					}
				}
				continue
			}
			if len(vs.Values) == 1 && len(vs.Names) > 1 {
				tv := u.eval(st, vs.Values[0])
				for i, n := range vs.Names {
					if o := u.info().ObjectOf(n); o != nil && n.Name != "_" && i < len(tv.Elems) {
						st.vars[o] = u.coerce(st, tv.Elems[i], o.Type())
					}
				}
				continue
			}
			for i, n := range vs.Names {
				v := u.eval(st, vs.Values[i])
				if o := u.info().ObjectOf(n); o != nil && n.Name != "_" {
					st.vars[o] = u.copyVal(st, u.coerce(st, v, o.Type()))
				}
			}
		}
		return u.alive(st)
	case *ast.ReturnStmt:
		u.execReturn(st, x)
		return flow{}
	case *ast.IfStmt:
		return u.execIf(st, x)
	case *ast.ForStmt:
		return u.execFor(st, x, "")
	case *ast.RangeStmt:
		return u.execRange(st, x, "")
	case *ast.SwitchStmt:
		return u.execSwitch(st, x, "")
	case *ast.TypeSwitchStmt:
		return u.execTypeSwitch(st, x, "")
	case *ast.SelectStmt:
		return u.execSelect(st, x, "")
	case *ast.LabeledStmt:
		switch inner := x.Stmt.(type) {
		case *ast.ForStmt:
			return u.execFor(st, inner, x.Label.Name)
		case *ast.RangeStmt:
			return u.execRange(st, inner, x.Label.Name)
		case *ast.SwitchStmt:
			return u.execSwitch(st, inner, x.Label.Name)
		case *ast.SelectStmt:
			return u.execSelect(st, inner, x.Label.Name)
		case *ast.TypeSwitchStmt:
			return u.execTypeSwitch(st, inner, x.Label.Name)
		}
		return u.execStmt(st, x.Stmt)
	case *ast.BranchStmt:
		lbl := ""
		if x.Label != nil {
			lbl = x.Label.Name
		}
		switch x.Tok {
		case token.BREAK:
			return flow{brk: []jump{{st, lbl}}}
		case token.CONTINUE:
			return flow{cont: []jump{{st, lbl}}}
		}
		u.reject("unsupported branch statement %s at %s", x.Tok, u.where(x.Pos()))
		return flow{}
	case *ast.DeferStmt:
		u.execDefer(st, x)
		return flow{normal: []*State{st}}
	case *ast.GoStmt:
		u.execGo(st, x)
		return flow{normal: []*State{st}}
	case *ast.SendStmt:
		u.eval(st, x.Chan)
		u.eval(st, x.Value)
		return flow{normal: []*State{st}}
	}
	u.reject("unsupported statement %T at %s", s, u.where(s.Pos()))
	return flow{}
}

func (u *Unit) alive(st *State) flow {
	if len(st.pc) > 0 && st.pc[len(st.pc)-1] == "false" {
		return flow{}
	}
	return flow{normal: []*State{st}}
}

func (u *Unit) execGo(st *State, x *ast.GoStmt) {
	// spawn rule: the parent continues unaffected; arguments are evaluated now.
	for _, a := range x.Call.Args {
		u.eval(st, a)
	}
	u.note("spawned", exprStr(u.eng.fset, x.Call.Fun))
}

func (u *Unit) execDefer(st *State, x *ast.DeferStmt) {
	d := deferred{call: x.Call}
	if lit, ok := ast.Unparen(x.Call.Fun).(*ast.FuncLit); ok {
		d.clo = &closure{lit: lit}
		for _, a := range x.Call.Args {
			d.args = append(d.args, u.eval(st, a))
		}
		st.defers = append(st.defers, d)
		return
	}
	// evaluate receiver and arguments now
	if se, ok := ast.Unparen(x.Call.Fun).(*ast.SelectorExpr); ok {
		if sel, ok := u.info().Selections[se]; ok && sel.Kind() == types.MethodVal {
			base := u.eval(st, se.X)
			idx := sel.Index()
			if len(idx) > 1 {
				base = u.walkFields(st, base, idx[:len(idx)-1], se)
			}
			d.recv = &base
		}
	}
	for _, a := range x.Call.Args {
		d.args = append(d.args, u.eval(st, a))
	}
	st.defers = append(st.defers, d)
}

// runDefers executes the deferred calls registered since `from`, LIFO.
func (u *Unit) runDefers(st *State, from int) []*State {
	cur := []*State{st}
	for i := len(st.defers) - 1; i >= from; i-- {
		d := st.defers[i]
		var next []*State
		for _, s := range cur {
			s.defers = s.defers[:i:i]
			if d.clo != nil {
				sig := u.typeOf(d.clo.lit).(*types.Signature)
				base := s.fork()
				outs := u.inlineBodyStates(s, d.clo.lit.Type, d.clo.lit.Body, nil, nil, d.args, sig)
				var ss []*State
				for _, o := range outs {
					ss = append(ss, o.st)
				}
				next = append(next, u.mergeAll(base, ss)...)
				continue
			}
			fn := u.calleeFunc(d.call)
			if fn == nil {
				if id, ok := ast.Unparen(d.call.Fun).(*ast.Ident); ok {
					if _, isB := u.info().ObjectOf(id).(*types.Builtin); isB {
						// deferred builtin (close, delete, ...): evaluate now
						u.evalBuiltin(s, d.call, id.Name)
						next = append(next, s)
						continue
					}
				}
				fv := u.eval(s, d.call.Fun)
				if fv.Closure != nil {
					sig := u.typeOf(fv.Closure.lit).(*types.Signature)
					base := s.fork()
					outs := u.inlineBodyStates(s, fv.Closure.lit.Type, fv.Closure.lit.Body, nil, nil, d.args, sig)
					var ss []*State
					for _, o := range outs {
						ss = append(ss, o.st)
					}
					next = append(next, u.mergeAll(base, ss)...)
					continue
				}
				u.note("abstracted", "deferred call through function value")
				u.setHeap(s, "G$lastfv", sArr(SInt, SInt), tStore(u.heapTerm(s, "G$lastfv", sArr(SInt, SInt)), "0", fv.S))
				next = append(next, s)
				continue
			}
			u.dispatchCall(s, d.call, fn, d.recv, d.args)
			if f := u.alive(s); len(f.normal) > 0 {
				next = append(next, s)
			}
		}
		cur = next
	}
	return cur
}

// tailInline: `return f(args)` with an inlinable callee is executed path by path (no merging of the callee's returns).
func (u *Unit) tailInline(st *State, x *ast.ReturnStmt) bool {
	if len(x.Results) != 1 || u.inlining >= 3 {
		return false
	}
	call, ok := ast.Unparen(x.Results[0]).(*ast.CallExpr)
	if !ok {
		return false
	}
	rets, ok := u.inlinePaths(st, call)
	if !ok {
		return false
	}
	fr := u.topFrame()
	for _, r := range rets {
		vals := r.vals
		for i := range vals {
			if i < fr.sig.Results().Len() {
				vals[i] = u.coerce(r.st, vals[i], fr.sig.Results().At(i).Type())
			}
		}
		u.finishReturn(r.st, vals)
	}
	return true
}

// inlinePaths executes an inlinable callee (no contract) and returns its return states unmerged.
func (u *Unit) inlinePaths(st *State, call *ast.CallExpr) ([]retState, bool) {
	if u.inlining >= 3 {
		return nil, false
	}
	if tv, ok := u.info().Types[ast.Unparen(call.Fun)]; ok && tv.IsType() {
		return nil, false
	}
	fn := u.calleeFunc(call)
	if fn == nil {
		// a local function value holding a function literal: f := func() {...}; f()
		if id, ok := ast.Unparen(call.Fun).(*ast.Ident); ok {
			if o, isVar := u.info().ObjectOf(id).(*types.Var); isVar {
				if fv, has := st.vars[o]; has && fv.Closure != nil {
					sig, _ := u.typeOf(fv.Closure.lit).(*types.Signature)
					if sig == nil || sig.Variadic() || len(call.Args) != sig.Params().Len() {
						return nil, false
					}
					var args []Val
					for i, a := range call.Args {
						args = append(args, u.coerce(st, u.eval(st, a), sig.Params().At(i).Type()))
					}
					return u.inlineBodyStates(st, fv.Closure.lit.Type, fv.Closure.lit.Body, nil, nil, args, sig), true
				}
			}
		}
		return nil, false
	}
	if fn.Name() == "verifPoint" {
		return nil, false
	}
	key := funcKey(fn)
	if u.eng.contractFor(key) != nil || u.eng.ioFallback(fn) != nil || u.isDroppedCall(fn) {
		return nil, false
	}
	fd, pk := u.eng.findDecl(fn)
	if fd == nil || fd.Body == nil || !u.eng.inlinable(fd) {
		return nil, false
	}
	sig := fn.Type().(*types.Signature)
	if sig.Variadic() {
		return nil, false
	}
	var recv *Val
	if sig.Recv() != nil {
		se, ok := ast.Unparen(call.Fun).(*ast.SelectorExpr)
		if !ok {
			return nil, false
		}
		sel, ok := u.info().Selections[se]
		if !ok {
			return nil, false
		}
		base := u.eval(st, se.X)
		idx := sel.Index()
		if len(idx) > 1 {
			base = u.walkFields(st, base, idx[:len(idx)-1], se)
		}
		recv = &base
	}
	var args []Val
	for i, a := range call.Args {
		v := u.eval(st, a)
		if i < sig.Params().Len() {
			v = u.coerce(st, v, sig.Params().At(i).Type())
		}
		args = append(args, v)
	}
	if len(args) != sig.Params().Len() {
		return nil, false
	}
	if _, done := u.builtinModel(st, call, fn, key, recv, args); done {
		return nil, false
	}
	u.note("inlined", key)
	oldPkg, oldFile := u.pkg, u.curFile
	u.pkg = pk
	rets := u.inlineBodyStates(st, fd.Type, fd.Body, fd.Recv, recv, args, sig)
	u.pkg, u.curFile = oldPkg, oldFile
	return rets, true
}

func (u *Unit) execReturn(st *State, x *ast.ReturnStmt) {
	if u.tailInline(st, x) {
		return
	}
	fr := u.topFrame()
	var vals []Val
	n := fr.sig.Results().Len()
	if len(x.Results) == 0 {
		for i := 0; i < n; i++ {
			if fr.resObjs[i] != nil {
				vals = append(vals, st.vars[fr.resObjs[i]])
			} else {
				vals = append(vals, u.zeroVal(st, fr.sig.Results().At(i).Type()))
			}
		}
	} else if len(x.Results) == 1 && n > 1 {
		tv := u.eval(st, x.Results[0])
		vals = tv.Elems
	} else {
		for _, r := range x.Results {
			vals = append(vals, u.eval(st, r))
		}
	}
	for i := range vals {
		if i < n {
			vals[i] = u.coerce(st, vals[i], fr.sig.Results().At(i).Type())
		}
	}
	if len(u.alive(st).normal) == 0 {
		return
	}
	u.finishReturn(st, vals)
}

// finishReturn binds results, runs defers and hands the state to the frame.
func (u *Unit) finishReturn(st *State, vals []Val) {
	fr := u.topFrame()
	for i, o := range fr.resObjs {
		if o != nil && i < len(vals) {
			st.vars[o] = vals[i]
		}
	}
	from := 0
	if fr.inline {
		from = st.ghostInt("$deferBase")
	}
	outs := u.runDefers(st, from)
	for _, s := range outs {
		rv := make([]Val, len(vals))
		copy(rv, vals)
		for i, o := range fr.resObjs {
			if o != nil && i < len(rv) {
				rv[i] = s.vars[o]
			}
		}
		fr.returns = append(fr.returns, retState{s, rv})
	}
}

func (s *State) ghostInt(k string) int {
	if v, ok := s.ghost[k]; ok {
		n, _ := strconv.Atoi(v.S)
		return n
	}
	return 0
}

func (u *Unit) execAssign(st *State, x *ast.AssignStmt) {
	if x.Tok != token.ASSIGN && x.Tok != token.DEFINE {
		// compound assignment
		var op token.Token
		switch x.Tok {
		case token.ADD_ASSIGN:
			op = token.ADD
		case token.SUB_ASSIGN:
			op = token.SUB
		case token.MUL_ASSIGN:
			op = token.MUL
		case token.QUO_ASSIGN:
			op = token.QUO
		case token.REM_ASSIGN:
			op = token.REM
		case token.OR_ASSIGN:
			op = token.OR
		case token.AND_ASSIGN:
			op = token.AND
		case token.SHL_ASSIGN:
			op = token.SHL
		case token.SHR_ASSIGN:
			op = token.SHR
		default:
			u.reject("unsupported assignment operator %s", x.Tok)
			return
		}
		a := u.eval(st, x.Lhs[0])
		b := u.eval(st, x.Rhs[0])
		r := u.arith(st, op, a, b, a.T, x)
		r.T = a.T
		u.assign(st, x.Lhs[0], r)
		return
	}
	if len(x.Rhs) == 1 && len(x.Lhs) > 1 {
		var vals []Val
		switch r := ast.Unparen(x.Rhs[0]).(type) {
		case *ast.TypeAssertExpr:
			v, ok := u.evalTypeAssert(st, r, true)
			vals = []Val{v, boolVal(ok)}
		case *ast.IndexExpr:
			if mt, isMap := u.typeOf(r.X).Underlying().(*types.Map); isMap {
				m := u.eval(st, r.X)
				k := u.eval(st, r.Index)
				v, has := u.mapLookup(st, mt, m.S, k)
				vals = []Val{v, boolVal(has)}
			}
		case *ast.UnaryExpr:
			if r.Op == token.ARROW {
				v := u.eval(st, r)
				vals = []Val{v, boolVal(u.fresh("recvok", SBool))}
			}
		}
		if vals == nil {
			tv := u.eval(st, x.Rhs[0])
			vals = tv.Elems
		}
		for i, l := range x.Lhs {
			if i < len(vals) {
				u.assignTok(st, l, vals[i], x.Tok)
			}
		}
		return
	}
	vals := make([]Val, len(x.Rhs))
	for i, r := range x.Rhs {
		vals[i] = u.eval(st, r)
	}
	for i, l := range x.Lhs {
		u.assignTok(st, l, vals[i], x.Tok)
	}
}

func (u *Unit) assignTok(st *State, lhs ast.Expr, v Val, tok token.Token) {
	if id, ok := lhs.(*ast.Ident); ok {
		if id.Name == "_" {
			return
		}
		o := u.info().ObjectOf(id)
		if o != nil {
			keep := v.Closure
			v = u.copyVal(st, u.coerce(st, v, o.Type()))
			v.Closure = keep
			if bv, boxed := st.ghost["&"+fmt.Sprint(o.Pos())]; boxed {
				u.storeAt(st, "P$"+typeKey(o.Type()), o.Type(), bv.S, v)
			} else if u.eng.addrTaken(u.pkg, o) && !isStructVal(o.Type()) && !isArrayT(o.Type()) && v.Kind == KScalar && v.Closure == nil {
				// a local whose address is taken somewhere in its function lives in a cell from its first assignment on,
				// so that every path agrees on where the value is
				r := u.alloc(st, "addr."+id.Name)
				u.storeAt(st, "P$"+typeKey(o.Type()), o.Type(), r, v)
				st.ghost["&"+fmt.Sprint(o.Pos())] = intVal(r)
			}
			st.vars[o] = v
			return
		}
	}
	u.assign(st, lhs, v)
}

// assign stores v into the location denoted by lhs.
func (u *Unit) assign(st *State, lhs ast.Expr, v Val) {
	switch x := ast.Unparen(lhs).(type) {
	case *ast.Ident:
		u.assignTok(st, x, v, token.ASSIGN)
	case *ast.SelectorExpr:
		sel, ok := u.info().Selections[x]
		if !ok {
			// package-level variable
			u.note("abstracted", "assignment to package variable "+exprStr(u.eng.fset, x))
			return
		}
		base := u.eval(st, x.X)
		idx := sel.Index()
		cur := base.T
		ref := base.S
		for k, i := range idx {
			if p, ok := cur.Underlying().(*types.Pointer); ok {
				u.nilOblige(st, exprStr(u.eng.fset, x), ref, x.Pos())
				cur = p.Elem()
			}
			f := structOf(cur).Field(i)
			if k == len(idx)-1 {
				u.checkGuarded(st, cur, f, ref, x, true)
				u.assignField(st, cur, f, ref, v)
				return
			}
			fv := u.fieldRead(st, cur, f, ref)
			ref = fv.S
			cur = f.Type()
		}
	case *ast.IndexExpr:
		bt := u.typeOf(x.X)
		base := u.eval(st, x.X)
		lbl := exprStr(u.eng.fset, x)
		switch t := bt.Underlying().(type) {
		case *types.Map:
			k := u.eval(st, x.Index)
			u.oblige(st, "mapnil", lbl, tNot(tEq(base.S, "0")), x.Pos())
			u.mapSet(st, t, base.S, k, u.copyVal(st, u.coerce(st, v, t.Elem())))
			return
		case *types.Slice:
			i := u.eval(st, x.Index)
			u.oblige(st, "bounds", lbl, tAnd(tLe("0", i.S), tLt(i.S, base.Len)), x.Pos())
			u.storeElem(st, t.Elem(), base.Arr, tAdd(base.Off, i.S), u.copyVal(st, u.coerce(st, v, t.Elem())))
			return
		case *types.Array:
			i := u.eval(st, x.Index)
			u.oblige(st, "bounds", lbl, tAnd(tLe("0", i.S), tLt(i.S, tInt(t.Len()))), x.Pos())
			u.storeElem(st, t.Elem(), base.S, i.S, u.copyVal(st, u.coerce(st, v, t.Elem())))
			return
		case *types.Pointer:
			if a, ok := t.Elem().Underlying().(*types.Array); ok {
				i := u.eval(st, x.Index)
				u.oblige(st, "bounds", lbl, tAnd(tLe("0", i.S), tLt(i.S, tInt(a.Len()))), x.Pos())
				u.storeElem(st, a.Elem(), base.S, i.S, u.copyVal(st, u.coerce(st, v, a.Elem())))
				return
			}
		}
		u.reject("unsupported index assignment %s", lbl)
	case *ast.StarExpr:
		p := u.eval(st, x.X)
		pt := p.T.Underlying().(*types.Pointer)
		u.nilOblige(st, exprStr(u.eng.fset, x), p.S, x.Pos())
		if isStructVal(pt.Elem()) {
			u.copyStruct(st, pt.Elem(), p.S, v.S)
			return
		}
		u.storeAt(st, "P$"+typeKey(pt.Elem()), pt.Elem(), p.S, u.coerce(st, v, pt.Elem()))
	default:
		u.reject("unsupported assignment target %T", lhs)
	}
}

func (u *Unit) execIf(st *State, x *ast.IfStmt) flow {
	if x.Init != nil {
		f := u.execStmt(st, x.Init)
		if len(f.normal) == 0 {
			return f
		}
		st = f.normal[0]
	}
	c := u.eval(st, x.Cond)
	if len(u.alive(st).normal) == 0 {
		return flow{}
	}
	base := st
	a := st.fork()
	b := st.fork()
	a.assume(c.S)
	b.assume(tNot(c.S))
	line := u.eng.fset.Position(x.Pos()).Line
	a.trace = append(a.trace, fmt.Sprintf("L%d:then", line))
	b.trace = append(b.trace, fmt.Sprintf("L%d:else", line))
	var out flow
	var norm []*State
	if c.S != "false" {
		fa := u.execBlock([]*State{a}, x.Body.List)
		norm = append(norm, fa.normal...)
		out.brk = append(out.brk, fa.brk...)
		out.cont = append(out.cont, fa.cont...)
	}
	if c.S != "true" {
		if x.Else != nil {
			fb := u.execStmt(b, x.Else)
			norm = append(norm, fb.normal...)
			out.brk = append(out.brk, fb.brk...)
			out.cont = append(out.cont, fb.cont...)
		} else {
			norm = append(norm, b)
		}
	}
	out.normal = u.mergeAll(base, norm)
	return out
}

func (u *Unit) execSwitch(st *State, x *ast.SwitchStmt, label string) flow {
	if x.Init != nil {
		f := u.execStmt(st, x.Init)
		if len(f.normal) == 0 {
			return f
		}
		st = f.normal[0]
	}
	var tag *Val
	if x.Tag != nil {
		v := u.eval(st, x.Tag)
		tag = &v
	}
	base := st
	var out flow
	var norm []*State
	rest := st.fork() // state in which no earlier case matched
	var deflt *ast.CaseClause
	line := u.eng.fset.Position(x.Pos()).Line
	for ci, cc := range x.Body.List {
		cl := cc.(*ast.CaseClause)
		if cl.List == nil {
			deflt = cl
			continue
		}
		var conds []Term
		for _, e := range cl.List {
			v := u.eval(rest, e)
			if tag != nil {
				conds = append(conds, u.binop(nil, token.EQL, *tag, v).S)
			} else {
				conds = append(conds, v.S)
			}
		}
		cond := tOr(conds...)
		take := rest.fork()
		take.assume(cond)
		take.trace = append(take.trace, fmt.Sprintf("L%d:case%d", line, ci))
		rest.assume(tNot(cond))
		for _, s := range cl.Body {
			if bs, ok := s.(*ast.BranchStmt); ok && bs.Tok == token.FALLTHROUGH {
				u.reject("fallthrough unsupported")
			}
		}
		f := u.execBlock([]*State{take}, cl.Body)
		norm = append(norm, f.normal...)
		out.cont = append(out.cont, f.cont...)
		for _, j := range f.brk {
			if j.label == "" || j.label == label {
				norm = append(norm, j.st)
			} else {
				out.brk = append(out.brk, j)
			}
		}
	}
	rest.trace = append(rest.trace, fmt.Sprintf("L%d:default", line))
	if deflt != nil {
		f := u.execBlock([]*State{rest}, deflt.Body)
		norm = append(norm, f.normal...)
		out.cont = append(out.cont, f.cont...)
		for _, j := range f.brk {
			if j.label == "" || j.label == label {
				norm = append(norm, j.st)
			} else {
				out.brk = append(out.brk, j)
			}
		}
	} else {
		norm = append(norm, rest)
	}
	out.normal = u.mergeAll(base, norm)
	return out
}

func (u *Unit) execTypeSwitch(st *State, x *ast.TypeSwitchStmt, label string) flow {
	if x.Init != nil {
		f := u.execStmt(st, x.Init)
		if len(f.normal) == 0 {
			return f
		}
		st = f.normal[0]
	}
	var subject ast.Expr
	var bind *ast.Ident
	switch a := x.Assign.(type) {
	case *ast.ExprStmt:
		subject = a.X.(*ast.TypeAssertExpr).X
	case *ast.AssignStmt:
		subject = a.Rhs[0].(*ast.TypeAssertExpr).X
		bind = a.Lhs[0].(*ast.Ident)
	}
	_ = bind
	v := u.eval(st, subject)
	base := st
	var out flow
	var norm []*State
	rest := st.fork()
	var deflt *ast.CaseClause
	line := u.eng.fset.Position(x.Pos()).Line
	for ci, cc := range x.Body.List {
		cl := cc.(*ast.CaseClause)
		if cl.List == nil {
			deflt = cl
			continue
		}
		var conds []Term
		var single types.Type
		for _, e := range cl.List {
			if id, ok := e.(*ast.Ident); ok && id.Name == "nil" {
				conds = append(conds, tEq(v.S, "0"))
				continue
			}
			T := u.typeOf(e)
			single = T
			conds = append(conds, u.hasDynType(rest, v.S, T))
		}
		cond := tOr(conds...)
		take := rest.fork()
		take.assume(cond)
		take.trace = append(take.trace, fmt.Sprintf("L%d:type%d", line, ci))
		rest.assume(tNot(cond))
		if o := u.info().Implicits[cl]; o != nil {
			if len(cl.List) == 1 && single != nil {
				take.vars[o] = u.unbox(take, v.S, single)
			} else {
				take.vars[o] = scalar(v.S, SInt, o.Type())
			}
		}
		f := u.execBlock([]*State{take}, cl.Body)
		norm = append(norm, f.normal...)
		out.cont = append(out.cont, f.cont...)
		for _, j := range f.brk {
			if j.label == "" || j.label == label {
				norm = append(norm, j.st)
			} else {
				out.brk = append(out.brk, j)
			}
		}
	}
	rest.trace = append(rest.trace, fmt.Sprintf("L%d:default", line))
	if deflt != nil {
		if o := u.info().Implicits[deflt]; o != nil {
			rest.vars[o] = scalar(v.S, SInt, o.Type())
		}
		f := u.execBlock([]*State{rest}, deflt.Body)
		norm = append(norm, f.normal...)
		out.cont = append(out.cont, f.cont...)
		for _, j := range f.brk {
			if j.label == "" || j.label == label {
				norm = append(norm, j.st)
			} else {
				out.brk = append(out.brk, j)
			}
		}
	} else {
		norm = append(norm, rest)
	}
	out.normal = u.mergeAll(base, norm)
	return out
}

func (u *Unit) execSelect(st *State, x *ast.SelectStmt, label string) flow {
	base := st
	var out flow
	var norm []*State
	line := u.eng.fset.Position(x.Pos()).Line
	for ci, cc := range x.Body.List {
		cl := cc.(*ast.CommClause)
		take := st.fork()
		take.trace = append(take.trace, fmt.Sprintf("L%d:comm%d", line, ci))
		// distinguish the branches in the path condition so that merging stays sound
		take.assume(tEq(u.selChoice(st, x), tInt(int64(ci))))
		if cl.Comm != nil {
			f := u.execStmt(take, cl.Comm)
			if len(f.normal) == 0 {
				continue
			}
			take = f.normal[0]
		}
		f := u.execBlock([]*State{take}, cl.Body)
		norm = append(norm, f.normal...)
		out.cont = append(out.cont, f.cont...)
		for _, j := range f.brk {
			if j.label == "" || j.label == label {
				norm = append(norm, j.st)
			} else {
				out.brk = append(out.brk, j)
			}
		}
	}
	out.normal = u.mergeAll(base, norm)
	return out
}

func (u *Unit) selChoice(st *State, x *ast.SelectStmt) Term {
	k := fmt.Sprintf("$sel%d", x.Pos())
	if v, ok := st.ghost[k]; ok {
		return v.S
	}
	t := u.fresh("select", SInt)
	st.ghost[k] = intVal(t)
	return t
}

// ---- loops ----

var reSym = regexp.MustCompile(`!(q?)(\d+)`)

func maxSymID(t Term) int {
	m := 0
	for _, g := range reSym.FindAllStringSubmatch(t, -1) {
		if g[1] == "q" {
			continue
		}
		n, _ := strconv.Atoi(g[2])
		if n > m {
			m = n
		}
	}
	return m
}

type loopCtx struct {
	spec   *LoopSpec
	ord    int
	pos    token.Pos
	label  string
	keyObj types.Object
}

// dryRun executes body on a fork and reports which variables and heaps it changes.
func (u *Unit) dryRun(st *State, run func(*State) []*State) (modVars map[types.Object]bool, modHeaps map[string]bool, allocs bool) {
	r := u.root()
	savedObls := len(r.obls)
	savedRej := r.rejected
	savedPaths := r.paths
	var savedRets []int
	for _, f := range frames[r] {
		savedRets = append(savedRets, len(f.returns))
	}
	d := st.fork()
	outs := run(d)
	for i, f := range frames[r] {
		if i < len(savedRets) {
			f.returns = f.returns[:savedRets[i]]
		}
	}
	modVars = map[types.Object]bool{}
	modHeaps = map[string]bool{}
	for _, o := range outs {
		for k, v := range o.vars {
			if ov, ok := st.vars[k]; ok && ov.String() != v.String() {
				modVars[k] = true
			}
		}
		for h, t := range o.heap {
			if t != st.heap[h] {
				modHeaps[h] = true
			}
		}
		if o.frontier != st.frontier {
			allocs = true
		}
		for g, v := range o.ghost {
			if ov, ok := st.ghost[g]; ok && ov.String() != v.String() && strings.HasPrefix(g, "$now") {
				modHeaps["$now"] = true
			}
		}
	}
	r.obls = r.obls[:savedObls]
	r.rejected = savedRej
	r.paths = savedPaths
	return
}

type autoInv struct {
	obj  types.Object
	pre  Term
	fpre Term
}

type loopFrame struct {
	modHeaps map[string]bool
	guards   []loopGuard
	autos    []autoInv
	autoSyms map[Term]bool // head values of the arrays of loop-carried slice variables
	ord      int
}

func (u *Unit) pushLoopFrame(lf *loopFrame) int {
	r := u.root()
	n := len(r.loopGuards)
	r.loopGuards = append(r.loopGuards, lf.guards...)
	return n
}
func (u *Unit) popLoopFrame(n int) { r := u.root(); r.loopGuards = r.loopGuards[:n] }

// checkAutoInv: a slice variable carried around the loop still points at its pre-loop array or at one allocated since.
func (u *Unit) checkAutoInv(st *State, lf *loopFrame) {
	for _, a := range lf.autos {
		v, ok := st.vars[a.obj]
		if !ok || v.Kind != KSlice {
			continue
		}
		u.oblige(st, "inv-keep", fmt.Sprintf("%d.auto:%s", lf.ord, a.obj.Name()), tOr(tEq(v.Arr, a.pre), tNot(isOld(v.Arr, a.fpre))), 0)
	}
}

// havocForLoop havocs what the loop body may change; returns the havoc'd state.
func (u *Unit) havocForLoop(st *State, run func(*State) []*State, ord int) (*State, *loopFrame) {
	lf := &loopFrame{ord: ord}
	modVars, modHeaps, allocs := u.dryRun(st, run)
	lf.modHeaps = modHeaps
	h := st.fork()
	mark := u.root().nfresh
	for o := range modVars {
		nv := u.freshVal(o.Name(), o.Type())
		h.assume(u.typeAssume(nv))
		u.assumeRefBelowFrontierLater(h, nv)
		h.vars[o] = nv
		if ov := st.vars[o]; ov.Kind == KSlice && nv.Kind == KSlice {
			// implicit invariant (re-checked at every back edge): still the pre-loop array, or a newer one
			h.assume(tOr(tEq(nv.Arr, ov.Arr), tNot(isOld(nv.Arr, st.frontier))))
			lf.autos = append(lf.autos, autoInv{o, ov.Arr, st.frontier})
			if lf.autoSyms == nil {
				lf.autoSyms = map[Term]bool{}
			}
			lf.autoSyms[nv.Arr] = true
		}
	}
	pre := map[string]Term{}
	for name := range modHeaps {
		if name == "$now" {
			old := u.clockTerm(h)
			t := u.fresh("now", SInt)
			h.assume(tLe(old, t))
			h.ghost["$now"] = intVal(t)
			continue
		}
		pre[name] = u.heapTerm(st, name, u.root().heapSort[name])
		h.heap[name] = u.fresh(name, u.root().heapSort[name])
	}
	if allocs {
		nf := u.fresh("frontier", SInt)
		h.assume(tLe(st.frontier, nf))
		h.frontier = nf
	}
	// second dry run on the havoc'd state: which references are written?
	if len(pre) > 0 {
		r := u.root()
		// (an enclosing loop may be in its own logging dry run: keep its log, and pass this loop's writes up to it)
		outerLog, outerLogging := r.writeLog, r.logging
		r.writeLog = map[string][]Term{}
		r.logging = true
		u.dryRun(h, run)
		log := r.writeLog
		r.writeLog, r.logging = outerLog, outerLogging
		if outerLogging {
			for k, v := range log {
				outerLog[k] = append(outerLog[k], v...)
			}
		}
		for name, preT := range pre {
			ws := log[name]
			if os.Getenv("GOCV_DEBUG_LOOP") != "" {
				fmt.Fprintf(os.Stderr, "loop %d heap %s: writes %v mark %d\n", ord, name, ws, mark)
			}
			invariant := len(ws) > 0
			seen := map[Term]bool{}
			var uniq []Term
			freshWrites := false
			for _, w := range ws {
				if rw := rootOfSub(w); u.root().allocSyms[rw] && maxSymID(rw) > mark {
					freshWrites = true // a reference allocated inside the iteration: cannot alias anything older
					continue
				}
				if maxSymID(w) > mark {
					invariant = false
					break
				}
				if !seen[w] {
					seen[w] = true
					uniq = append(uniq, w)
				}
			}
			sort := u.root().heapSort[name]
			es := arrayElemSort(sort)
			guardable := !invariant
			if !invariant {
				for _, w := range ws {
					if maxSymID(w) <= mark {
						continue
					}
					if strings.HasPrefix(w, "apparr!") || u.root().allocSyms[rootOfSub(w)] || lf.autoSyms[w] {
						continue // new array, or the current array of a loop-carried slice variable (auto invariant)
					}
					guardable = false // a write at an old reference chosen inside the loop: nothing can be framed
				}
			}
			if !invariant && !guardable {
				if u.eng.verbose {
					fmt.Printf("  loop havoc: heap %s fully havoc'd (writes at %v, mark %d)\n", name, ws, mark)
				}
				continue
			}
			if !invariant {
				// writes at references computed inside the loop: assume the frame in quantified form for everything that is
				// old and neither an invariant target nor the pre-loop array of a slice variable the loop updates, and make
				// every write of the real iteration prove that it stays inside that allowance (loop-frame obligations).
				var allowed []Term
				seenA := map[Term]bool{}
				for _, w := range ws {
					if maxSymID(w) <= mark && !seenA[w] {
						seenA[w] = true
						allowed = append(allowed, w)
					}
				}
				if strings.HasPrefix(name, "E$") {
					for _, a := range lf.autos {
						if !seenA[a.pre] {
							seenA[a.pre] = true
							allowed = append(allowed, a.pre)
						}
					}
				}
				var excl []Term
				for _, w := range allowed {
					excl = append(excl, tNot(tEq("r!qh", w)))
				}
				h.assume(fmt.Sprintf("(forall ((r!qh Int)) (! (=> %s (= (select %s r!qh) (select %s r!qh))) :pattern ((select %s r!qh))))",
					tAnd(append([]Term{isOld("r!qh", st.frontier)}, excl...)...), h.heap[name], preT, h.heap[name]))
				lf.guards = append(lf.guards, loopGuard{heap: name, allowed: allowed, fpre: st.frontier, ord: ord})
				continue
			}
			if freshWrites {
				var excl []Term
				for _, w := range uniq {
					excl = append(excl, tNot(tEq("r!qh", w)))
				}
				h.assume(fmt.Sprintf("(forall ((r!qh Int)) (! (=> %s (= (select %s r!qh) (select %s r!qh))) :pattern ((select %s r!qh))))",
					tAnd(append([]Term{isOld("r!qh", st.frontier)}, excl...)...), h.heap[name], preT, h.heap[name]))
				continue
			}
			t := preT
			for _, w := range uniq {
				t = tStore(t, w, u.fresh(name+".hv", es))
			}
			h.assume(tEq(h.heap[name], t))
		}
	}
	return h, lf
}

func (u *Unit) assumeRefBelowFrontierLater(st *State, v Val) {
	// references held in havoc'd variables were allocated before "now"
	if v.Kind == KSlice {
		st.assume(tLe(v.Arr, st.frontier))
	}
}

func (u *Unit) loopSpec(n ast.Node) (*LoopSpec, int) {
	r := u.root()
	ord := r.loopOrd[n]
	if u.contract != nil {
		if ls := u.contract.Loops[ord]; ls != nil {
			return ls, ord
		}
	}
	if r.contract != nil {
		if ls := r.contract.Loops[ord]; ls != nil {
			return ls, ord
		}
	}
	return nil, ord
}

func (u *Unit) invEnv(st *State, pos token.Pos) *specEnv {
	oldSt := st.old
	if oldSt == nil {
		oldSt = u.root().entry
	}
	env := &specEnv{u: u, st: st, old: oldSt, vars: map[string]Val{}, pkg: u.pkg.Types, pos: pos}
	if u.root().specEnv0 != nil {
		for k, v := range u.root().specEnv0.vars {
			env.vars[k] = v
		}
	}
	// current values of parameters shadow entry values inside invariants
	return env
}

func (u *Unit) checkInvariants(st *State, lc *loopCtx, kind string, extra map[string]Val) {
	if lc.spec == nil {
		return
	}
	env := u.invEnv(st, lc.pos)
	for k, v := range extra {
		env.vars[k] = v
	}
	for i, inv := range lc.spec.Invariants {
		t, err := u.specBool(env, inv)
		if err != nil {
			u.reject("contract error: %v", err)
			continue
		}
		parts := splitGoal(t)
		for pi, pt := range parts {
			lbl := fmt.Sprintf("%d.%d", lc.ord, i+1)
			if len(parts) > 1 {
				lbl = fmt.Sprintf("%d.%d.%d", lc.ord, i+1, pi+1)
			}
			u.oblige(st, kind, lbl, pt, lc.pos)
		}
	}
}

func (u *Unit) assumeInvariants(st *State, lc *loopCtx, extra map[string]Val) {
	if lc.spec == nil {
		return
	}
	env := u.invEnv(st, lc.pos)
	for k, v := range extra {
		env.vars[k] = v
	}
	for _, inv := range lc.spec.Invariants {
		t, err := u.specBool(env, inv)
		if err != nil {
			u.reject("contract error: %v", err)
			continue
		}
		st.assume(t)
	}
}

func (u *Unit) decreasesVal(st *State, lc *loopCtx, extra map[string]Val) (Term, bool) {
	if lc.spec == nil || lc.spec.Decreases == nil {
		return "", false
	}
	env := u.invEnv(st, lc.pos)
	for k, v := range extra {
		env.vars[k] = v
	}
	v, err := u.specVal(env, *lc.spec.Decreases)
	if err != nil {
		u.reject("contract error: %v", err)
		return "", false
	}
	return v.S, true
}

func (u *Unit) execFor(st *State, x *ast.ForStmt, label string) flow {
	if x.Init != nil {
		f := u.execStmt(st, x.Init)
		if len(f.normal) == 0 {
			return f
		}
		st = f.normal[0]
	}
	spec, ord := u.loopSpec(x)
	lc := &loopCtx{spec: spec, ord: ord, pos: x.Body.Lbrace + 1, label: label}
	if spec == nil {
		u.note("loops_without_invariant", fmt.Sprintf("%s loop %d", u.root().name, ord))
	}
	u.checkInvariants(st, lc, "inv-entry", nil)
	iter := func(s *State) []*State {
		// one full iteration: cond, body, post
		if x.Cond != nil {
			c := u.eval(s, x.Cond)
			s.assume(c.S)
		}
		f := u.execBlock([]*State{s}, x.Body.List)
		outs := append([]*State{}, f.normal...)
		for _, j := range f.cont {
			if j.label == "" || j.label == label {
				outs = append(outs, j.st)
			}
		}
		var res []*State
		for _, o := range outs {
			if x.Post != nil {
				pf := u.execStmt(o, x.Post)
				res = append(res, pf.normal...)
			} else {
				res = append(res, o)
			}
		}
		for _, j := range f.brk {
			res = append(res, j.st)
		}
		return res
	}
	h, lf := u.havocForLoop(st, iter, ord)
	u.assumeInvariants(h, lc, nil)
	var out flow
	// exit by condition
	body := h.fork()
	if x.Cond != nil {
		c := u.eval(h, x.Cond)
		exit := h.fork()
		exit.assume(tNot(c.S))
		exit.trace = append(exit.trace, fmt.Sprintf("loop%d:exit", ord))
		out.normal = append(out.normal, exit)
		body.assume(c.S)
	}
	body.trace = append(body.trace, fmt.Sprintf("loop%d:iter", ord))
	dec0, hasDec := u.decreasesVal(body, lc, nil)
	gmark := u.pushLoopFrame(lf)
	f := u.execBlock([]*State{body}, x.Body.List)
	backs := append([]*State{}, f.normal...)
	for _, j := range f.cont {
		if j.label == "" || j.label == label {
			backs = append(backs, j.st)
		} else {
			out.cont = append(out.cont, j)
		}
	}
	for _, b := range backs {
		if x.Post != nil {
			pf := u.execStmt(b, x.Post)
			if len(pf.normal) == 0 {
				continue
			}
			b = pf.normal[0]
		}
		u.checkInvariants(b, lc, "inv-keep", nil)
		u.checkAutoInv(b, lf)
		if hasDec {
			d1, _ := u.decreasesVal(b, lc, nil)
			u.oblige(b, "dec", fmt.Sprint(ord), tAnd(tLe("0", dec0), tLt(d1, dec0)), lc.pos)
		}
	}
	u.popLoopFrame(gmark)
	for _, j := range f.brk {
		if j.label == "" || j.label == label {
			out.normal = append(out.normal, j.st)
		} else {
			out.brk = append(out.brk, j)
		}
	}
	return out
}

func (u *Unit) execRange(st *State, x *ast.RangeStmt, label string) flow {
	spec, ord := u.loopSpec(x)
	lc := &loopCtx{spec: spec, ord: ord, pos: x.Body.Lbrace + 1, label: label}
	if spec == nil {
		u.note("loops_without_invariant", fmt.Sprintf("%s loop %d", u.root().name, ord))
	}
	coll := u.eval(st, x.X)
	ct := u.typeOf(x.X)
	var keyObj, valObj types.Object
	if id, ok := x.Key.(*ast.Ident); ok && id.Name != "_" {
		keyObj = u.info().ObjectOf(id)
	}
	if id, ok := x.Value.(*ast.Ident); ok && id.Name != "_" {
		valObj = u.info().ObjectOf(id)
	}
	// hidden counter
	cntObj := types.NewVar(x.Pos(), u.pkg.Types, fmt.Sprintf("idx%d", ord), types.Typ[types.Int])
	var n Term
	kind := ""
	var elemT types.Type
	switch t := ct.Underlying().(type) {
	case *types.Slice:
		n, kind, elemT = coll.Len, "slice", t.Elem()
	case *types.Array:
		n, kind, elemT = tInt(t.Len()), "array", t.Elem()
	case *types.Pointer:
		if a, ok := t.Elem().Underlying().(*types.Array); ok {
			n, kind, elemT = tInt(a.Len()), "array", a.Elem()
		}
	case *types.Basic:
		if t.Info()&types.IsInteger != 0 {
			n, kind = coll.S, "int"
		} else if t.Info()&types.IsString != 0 {
			u.note("assumptions", "range over string treated as range over bytes (ASCII)")
			n, kind = tApp("slen", coll.S), "string"
		}
	case *types.Map:
		return u.execRangeMap(st, x, lc, coll, t, keyObj, valObj, label)
	case *types.Chan:
		kind = "chan"
	}
	if kind == "" {
		u.reject("unsupported range over %s", ct)
		return flow{}
	}
	if kind == "chan" {
		n = u.fresh("chan.n", SInt)
		st.assume(tLe("0", n))
	}
	aliasOK := false
	if valObj != nil && elemT != nil && isStructVal(elemT) && (kind == "slice" || kind == "array") {
		aliasOK = u.rangeVarReadOnly(x, valObj, elemT)
	}
	st.vars[cntObj] = intVal("0")
	bindIter := func(s *State) {
		i := s.vars[cntObj].S
		if keyObj != nil && kind != "chan" {
			s.vars[keyObj] = scalar(i, SInt, keyObj.Type())
		}
		var ev Val
		switch kind {
		case "slice":
			ev = u.loadElem(s, elemT, coll.Arr, tAdd(coll.Off, i))
		case "array":
			ev = u.loadElem(s, elemT, coll.S, i)
		case "string":
			ev = scalar(tApp("sat", coll.S, i), SInt, types.Typ[types.Int32])
			u.assumeOnce(s, tAnd(tLe("0", ev.S), tLe(ev.S, "255")))
		case "chan":
			T := ct.Underlying().(*types.Chan).Elem()
			ev = u.freshVal("recv", T)
			s.assume(u.typeAssume(ev))
			if keyObj != nil {
				s.vars[keyObj] = ev
			}
			return
		default:
			return
		}
		if valObj != nil {
			if aliasOK {
				// the body neither writes the iteration variable, nor takes its address, nor writes a field of its struct
				// type, nor calls anything that could: the per-iteration copy is indistinguishable from the element itself
				s.vars[valObj] = ev
			} else {
				s.vars[valObj] = u.copyVal(s, ev)
			}
		}
	}
	extra := func(s *State) map[string]Val {
		m := map[string]Val{"idx": s.vars[cntObj]}
		if keyObj != nil {
			m[keyObj.Name()] = s.vars[cntObj]
		}
		return m
	}
	u.checkInvariants(st, lc, "inv-entry", extra(st))
	iter := func(s *State) []*State {
		s.assume(tLt(s.vars[cntObj].S, n))
		bindIter(s)
		f := u.execBlock([]*State{s}, x.Body.List)
		outs := append([]*State{}, f.normal...)
		for _, j := range f.cont {
			outs = append(outs, j.st)
		}
		for _, o := range outs {
			o.vars[cntObj] = intVal(tAdd(o.vars[cntObj].S, "1"))
		}
		for _, j := range f.brk {
			outs = append(outs, j.st)
		}
		return outs
	}
	h, lf := u.havocForLoop(st, iter, ord)
	// the counter is always havoc'd within range
	ci := u.fresh("idx", SInt)
	h.vars[cntObj] = intVal(ci)
	h.assume(tAnd(tLe("0", ci), tLe(ci, n)))
	u.assumeInvariants(h, lc, extra(h))
	var out flow
	exit := h.fork()
	exit.assume(tEq(ci, n))
	exit.trace = append(exit.trace, fmt.Sprintf("loop%d:exit", ord))
	if kind == "chan" {
		exit = h.fork()
	}
	out.normal = append(out.normal, exit)
	body := h.fork()
	body.assume(tLt(ci, n))
	body.trace = append(body.trace, fmt.Sprintf("loop%d:iter", ord))
	bindIter(body)
	gmark := u.pushLoopFrame(lf)
	f := u.execBlock([]*State{body}, x.Body.List)
	u.popLoopFrame(gmark)
	backs := append([]*State{}, f.normal...)
	for _, j := range f.cont {
		if j.label == "" || j.label == label {
			backs = append(backs, j.st)
		} else {
			out.cont = append(out.cont, j)
		}
	}
	for _, b := range backs {
		b.vars[cntObj] = intVal(tAdd(ci, "1"))
		u.checkInvariants(b, lc, "inv-keep", extra(b))
		u.checkAutoInv(b, lf)
	}
	for _, j := range f.brk {
		if j.label == "" || j.label == label {
			out.normal = append(out.normal, j.st)
		} else {
			out.brk = append(out.brk, j)
		}
	}
	return out
}

// range over a map: the body runs for an arbitrary present key; the invariant must be
// re-established after each such iteration (it sees deletions and insertions made by the body).
func (u *Unit) execRangeMap(st *State, x *ast.RangeStmt, lc *loopCtx, coll Val, mt *types.Map, keyObj, valObj types.Object, label string) flow {
	// ghost set of the keys already produced by the iteration: `visited[k]` in invariants. Each iteration picks a present,
	// unvisited key; when the body does not insert into the map, every key present at exit has been visited.
	ks := u.keySort(mt)
	visSort := sArr(ks, SBool)
	vis0 := fmt.Sprintf("((as const %s) false)", visSort)
	visVal := func(t Term) map[string]Val { return map[string]Val{"visited": scalar(t, visSort, nil)} }
	u.checkInvariants(st, lc, "inv-entry", visVal(vis0))
	visH := u.fresh("visited", visSort)
	var curKey Val
	bind := func(s *State) {
		k := u.freshVal("rangekey", mt.Key())
		s.assume(u.typeAssume(k))
		s.assume(tNot(tEq(coll.S, "0")))
		s.assume(u.mapHas(s, mt, coll.S, k))
		s.assume(tNot(tSel(visH, k.S)))
		curKey = k
		if keyObj != nil {
			s.vars[keyObj] = k
		}
		if valObj != nil {
			s.vars[valObj] = u.copyVal(s, u.mapGet(s, mt, coll.S, k))
		}
	}
	iter := func(s *State) []*State {
		bind(s)
		f := u.execBlock([]*State{s}, x.Body.List)
		outs := append([]*State{}, f.normal...)
		for _, j := range f.cont {
			outs = append(outs, j.st)
		}
		for _, j := range f.brk {
			outs = append(outs, j.st)
		}
		return outs
	}
	h, lf := u.havocForLoop(st, iter, lc.ord)
	u.assumeInvariants(h, lc, visVal(visH))
	var out flow
	exit := h.fork()
	exit.trace = append(exit.trace, fmt.Sprintf("loop%d:exit", lc.ord))
	d, _, _ := mapHeaps(mt)
	if !lf.modHeaps[d] {
		// the body never writes the key set of a map of this type: all present keys have been visited
		q := fmt.Sprintf("k!q%d", u.nextQ())
		kv := scalar(q, ks, mt.Key())
		hasT := u.mapHas(exit, mt, coll.S, kv)
		exit.assume(fmt.Sprintf("(forall ((%s %s)) (! (=> %s (select %s %s)) :pattern ((select %s %s))))", q, ks, hasT, visH, q, visH, q))
	}
	out.normal = append(out.normal, exit)
	body := h.fork()
	body.trace = append(body.trace, fmt.Sprintf("loop%d:iter", lc.ord))
	bind(body)
	bodyKey := curKey
	gmark := u.pushLoopFrame(lf)
	f := u.execBlock([]*State{body}, x.Body.List)
	u.popLoopFrame(gmark)
	backs := append([]*State{}, f.normal...)
	for _, j := range f.cont {
		if j.label == "" || j.label == label {
			backs = append(backs, j.st)
		} else {
			out.cont = append(out.cont, j)
		}
	}
	visNext := tStore(visH, bodyKey.S, "true")
	for _, b := range backs {
		u.checkInvariants(b, lc, "inv-keep", visVal(visNext))
		u.checkAutoInv(b, lf)
	}
	for _, j := range f.brk {
		if j.label == "" || j.label == label {
			out.normal = append(out.normal, j.st)
		} else {
			out.brk = append(out.brk, j)
		}
	}
	return out
}

// ---- inlining ----

func (u *Unit) inlineBodyStates(st *State, ft *ast.FuncType, body *ast.BlockStmt, recvList *ast.FieldList, recv *Val, args []Val, sig *types.Signature) []retState {
	fr := &frame{inline: true, sig: sig, ftype: ft}
	// bind receiver and parameters
	if recvList != nil && recv != nil && len(recvList.List) > 0 && len(recvList.List[0].Names) > 0 {
		if o := u.info().ObjectOf(recvList.List[0].Names[0]); o != nil {
			rv := *recv
			rv.T = o.Type()
			st.vars[o] = rv
		}
	}
	i := 0
	if ft.Params != nil {
		for _, f := range ft.Params.List {
			if len(f.Names) == 0 {
				i++
				continue
			}
			for _, n := range f.Names {
				if o := u.info().ObjectOf(n); o != nil && i < len(args) && n.Name != "_" {
					st.vars[o] = u.copyVal(st, u.coerce(st, args[i], o.Type()))
				}
				i++
			}
		}
	}
	if ft.Results != nil {
		for _, f := range ft.Results.List {
			if len(f.Names) == 0 {
				fr.resObjs = append(fr.resObjs, nil)
				continue
			}
			for _, n := range f.Names {
				o := u.info().ObjectOf(n)
				fr.resObjs = append(fr.resObjs, o)
				if o != nil {
					st.vars[o] = u.zeroVal(st, o.Type())
				}
			}
		}
	}
	for len(fr.resObjs) < sig.Results().Len() {
		fr.resObjs = append(fr.resObjs, nil)
	}
	savedBase, hadBase := st.ghost["$deferBase"]
	st.ghost["$deferBase"] = intVal(strconv.Itoa(len(st.defers)))
	u.pushFrame(fr)
	u.inlining++
	f := u.execBlock([]*State{st}, body.List)
	// falling off the end
	for _, s := range f.normal {
		var vals []Val
		for i := 0; i < sig.Results().Len(); i++ {
			if fr.resObjs[i] != nil {
				vals = append(vals, s.vars[fr.resObjs[i]])
			} else {
				vals = append(vals, u.zeroVal(s, sig.Results().At(i).Type()))
			}
		}
		u.finishReturn(s, vals)
	}
	u.inlining--
	u.popFrame()
	for _, r := range fr.returns {
		if hadBase {
			r.st.ghost["$deferBase"] = savedBase
		} else {
			delete(r.st.ghost, "$deferBase")
		}
	}
	return fr.returns
}

// inlineBody runs a callee body in place and merges its return states into st.
func (u *Unit) inlineBody(st *State, ft *ast.FuncType, body *ast.BlockStmt, recvList *ast.FieldList, recv *Val, args []Val, sig *types.Signature, name string) Val {
	base := st.fork()
	work := st.fork()
	rets := u.inlineBodyStates(work, ft, body, recvList, recv, args, sig)
	v, ok := u.mergeRets(st, base, rets, sig, name)
	if !ok {
		u.reject("cannot merge return states of inlined %s", name)
		return u.havocResults(st, sig, name)
	}
	return v
}

// mergeRets merges the return states of an inlined callee into st (results become ite terms over the path
// conditions); ok=false when the states cannot be merged (st is then untouched).
func (u *Unit) mergeRets(st, base *State, rets []retState, sig *types.Signature, name string) (Val, bool) {
	if len(rets) == 0 {
		st.assume("false")
		return u.havocResults(st, sig, name), true
	}
	var sts []*State
	for _, r := range rets {
		sts = append(sts, r.st)
	}
	var m *State
	if len(rets) == 1 {
		m = rets[0].st
	} else {
		m = u.merge(base, sts)
	}
	if m == nil {
		return Val{}, false
	}
	// results: ite over path conditions
	n := sig.Results().Len()
	var res []Val
	if len(rets) == 1 {
		res = rets[0].vals
	} else {
		n0 := len(base.pc)
		conds := make([]Term, len(rets))
		for i, r := range rets {
			conds[i] = tAnd(r.st.pc[n0:]...)
		}
		for k := 0; k < n; k++ {
			c0, _ := rets[len(rets)-1].vals[k].components()
			acc := append([]Term{}, c0...)
			for i := len(rets) - 2; i >= 0; i-- {
				ci, _ := rets[i].vals[k].components()
				if len(ci) != len(acc) {
					return Val{}, false
				}
				for j := range acc {
					acc[j] = tIte(conds[i], ci[j], acc[j])
				}
			}
			res = append(res, rets[len(rets)-1].vals[k].withComponents(acc))
		}
	}
	*st = *m
	switch n {
	case 0:
		return Val{Kind: KTuple}, true
	case 1:
		return res[0], true
	}
	return Val{Kind: KTuple, T: sig.Results(), Elems: res}, true
}


// appendAssign recognises  x = append(s, e1, ..., ek)  (no ellipsis) at statement level.
func appendAssign(u *Unit, x *ast.AssignStmt) *ast.CallExpr {
	if len(x.Rhs) != 1 || len(x.Lhs) != 1 || (x.Tok != token.ASSIGN && x.Tok != token.DEFINE) {
		return nil
	}
	call, ok := ast.Unparen(x.Rhs[0]).(*ast.CallExpr)
	if !ok || call.Ellipsis != token.NoPos || len(call.Args) < 2 {
		return nil
	}
	id, ok := ast.Unparen(call.Fun).(*ast.Ident)
	if !ok || id.Name != "append" {
		return nil
	}
	if _, isB := u.info().ObjectOf(id).(*types.Builtin); !isB {
		return nil
	}
	return call
}


// rangeVarReadOnly: may the struct-valued iteration variable of a range loop stand for the element itself? Yes when the
// body never assigns to the variable or to a field reached through it, never takes its address, never assigns to a
// field of the element's struct type through anything else, never assigns to an element of any slice of that type,
// and contains no function literal or go/defer statement (which could do any of that later).
func (u *Unit) rangeVarReadOnly(x *ast.RangeStmt, v types.Object, elemT types.Type) bool {
	ok := true
	rootIs := func(e ast.Expr) bool {
		for {
			switch t := ast.Unparen(e).(type) {
			case *ast.SelectorExpr:
				e = t.X
			case *ast.IndexExpr:
				e = t.X
			case *ast.StarExpr:
				e = t.X
			case *ast.Ident:
				return u.info().ObjectOf(t) == v
			default:
				return false
			}
		}
	}
	writes := func(lhs ast.Expr) {
		if rootIs(lhs) {
			ok = false
			return
		}
		switch t := ast.Unparen(lhs).(type) {
		case *ast.SelectorExpr:
			if sel, has := u.info().Selections[t]; has {
				rt := sel.Recv()
				if p, isP := rt.Underlying().(*types.Pointer); isP {
					rt = p.Elem()
				}
				if types.Identical(rt, elemT) {
					ok = false
				}
			}
		case *ast.IndexExpr:
			if tv := u.typeOf(t); tv != nil && types.Identical(tv, elemT) {
				ok = false
			}
		}
	}
	ast.Inspect(x.Body, func(n ast.Node) bool {
		switch t := n.(type) {
		case *ast.AssignStmt:
			for _, l := range t.Lhs {
				writes(l)
			}
		case *ast.IncDecStmt:
			writes(t.X)
		case *ast.UnaryExpr:
			if t.Op == token.AND && rootIs(t.X) {
				ok = false
			}
		case *ast.FuncLit, *ast.GoStmt, *ast.DeferStmt:
			ok = false
		case *ast.CallExpr:
			// a method with pointer receiver called on the variable takes its address
			if se, isSel := ast.Unparen(t.Fun).(*ast.SelectorExpr); isSel && rootIs(se.X) {
				if sel, has := u.info().Selections[se]; has && sel.Kind() == types.MethodVal {
					if sig, _ := sel.Obj().Type().(*types.Signature); sig != nil && sig.Recv() != nil {
						if _, isP := sig.Recv().Type().Underlying().(*types.Pointer); isP {
							ok = false
						}
					}
				}
			}
		}
		return ok
	})
	return ok
}
