package main

import "strings"

// minimal s-expression reader used to choose quantifier triggers
type sx struct {
	atom string
	kids []*sx
}

func parseSx(s string) *sx {
	pos := 0
	var rec func() *sx
	rec = func() *sx {
		for pos < len(s) && (s[pos] == ' ' || s[pos] == '\n') {
			pos++
		}
		if pos >= len(s) {
			return nil
		}
		if s[pos] == '(' {
			pos++
			n := &sx{}
			for {
				for pos < len(s) && (s[pos] == ' ' || s[pos] == '\n') {
					pos++
				}
				if pos >= len(s) {
					return n
				}
				if s[pos] == ')' {
					pos++
					return n
				}
				k := rec()
				if k == nil {
					return n
				}
				n.kids = append(n.kids, k)
			}
		}
		start := pos
		for pos < len(s) && s[pos] != ' ' && s[pos] != ')' && s[pos] != '(' && s[pos] != '\n' {
			pos++
		}
		return &sx{atom: s[start:pos]}
	}
	return rec()
}

func (n *sx) String() string {
	if n.kids == nil && n.atom != "" {
		return n.atom
	}
	var parts []string
	for _, k := range n.kids {
		parts = append(parts, k.String())
	}
	return "(" + strings.Join(parts, " ") + ")"
}

func (n *sx) mentions(v string) bool {
	if n.kids == nil {
		return n.atom == v
	}
	for _, k := range n.kids {
		if k.mentions(v) {
			return true
		}
	}
	return false
}

// selectPatterns returns the terms (select A v) / (sat A v) of body in which the bound variable v is the plain index.
func selectPatterns(body, v string, others []string) []string {
	root := parseSx(body)
	seen := map[string]bool{}
	var out []string
	var walk func(n *sx, underQ bool)
	walk = func(n *sx, underQ bool) {
		if n == nil || n.kids == nil {
			return
		}
		if len(n.kids) > 0 && n.kids[0].kids == nil && (n.kids[0].atom == "forall" || n.kids[0].atom == "exists") {
			return // do not look into nested quantifiers
		}
		isIdx := func(k *sx) bool {
			if k.kids == nil {
				return k.atom == v
			}
			// (+ T v) / (+ v T) with T free of v: offset-relative index of a slice element
			if len(k.kids) == 3 && k.kids[0].kids == nil && k.kids[0].atom == "+" {
				a, b := k.kids[1], k.kids[2]
				if a.kids == nil && a.atom == v && !b.mentions(v) {
					return true
				}
				if b.kids == nil && b.atom == v && !a.mentions(v) {
					return true
				}
			}
			return false
		}
		if len(n.kids) == 3 && n.kids[0].kids == nil && (n.kids[0].atom == "select" || n.kids[0].atom == "sat") && isIdx(n.kids[2]) {
			ok := !n.kids[1].mentions(v)
			for _, o := range others {
				if n.kids[1].mentions(o) {
					ok = false
				}
			}
			for _, bad := range []string{"ite", "and", "or", "not", "=>", "=", "<", "<=", "forall", "exists"} {
				if n.mentionsOp(bad) {
					ok = false // interpreted boolean structure is not allowed inside a pattern
				}
			}
			if ok {
				t := n.String()
				if !seen[t] {
					seen[t] = true
					out = append(out, t)
				}
			}
		}
		for _, k := range n.kids {
			walk(k, underQ)
		}
	}
	walk(root, false)
	return out
}


func (n *sx) mentionsOp(op string) bool {
	if n.kids == nil {
		return false
	}
	if len(n.kids) > 0 && n.kids[0].kids == nil && n.kids[0].atom == op {
		return true
	}
	for _, k := range n.kids {
		if k.mentionsOp(op) {
			return true
		}
	}
	return false
}
