package main

import (
	"fmt"
	"go/ast"
	"go/token"
	"go/types"
	"strings"
)

// builtinModel gives semantics to a handful of library functions that contracts cannot express
// conveniently (locks, atomics, clock, error constructors).
func (u *Unit) builtinModel(st *State, call *ast.CallExpr, fn *types.Func, key string, recv *Val, args []Val) (Val, bool) {
	none := Val{Kind: KTuple}
	pkg := ""
	if fn.Pkg() != nil {
		pkg = fn.Pkg().Path()
	}
	sig := fn.Type().(*types.Signature)
	switch pkg {
	case "sync":
		switch key {
		case "(*sync.Mutex).Lock", "(*sync.RWMutex).Lock":
			u.lockOp(st, call, "lock")
			return none, true
		case "(*sync.RWMutex).RLock":
			u.lockOp(st, call, "rlock")
			return none, true
		case "(*sync.Mutex).Unlock", "(*sync.RWMutex).Unlock":
			u.lockOp(st, call, "unlock")
			return none, true
		case "(*sync.RWMutex).RUnlock":
			u.lockOp(st, call, "runlock")
			return none, true
		case "(*sync.Mutex).TryLock", "(*sync.RWMutex).TryLock":
			u.note("abstracted", key)
			return boolVal(u.fresh("trylock", SBool)), true
		case "(*sync.Once).Do":
			if len(args) == 1 && args[0].Closure != nil {
				// the body runs at most once over all calls: here it either runs now or has run before
				ran := u.fresh("once.ran", SBool)
				base := st.fork()
				a := st.fork()
				a.assume(ran)
				lsig := u.typeOf(args[0].Closure.lit).(*types.Signature)
				outs := u.inlineBodyStates(a, args[0].Closure.lit.Type, args[0].Closure.lit.Body, nil, nil, nil, lsig)
				b := st.fork()
				b.assume(tNot(ran))
				sts := []*State{b}
				for _, o := range outs {
					sts = append(sts, o.st)
				}
				if m := u.merge(base, sts); m != nil {
					*st = *m
				} else {
					u.reject("cannot merge sync.Once.Do branches")
				}
				return none, true
			}
			u.note("abstracted", key)
			return none, true
		case "(*sync.WaitGroup).Add", "(*sync.WaitGroup).Done", "(*sync.WaitGroup).Wait", "(*sync.WaitGroup).Go",
			"(*sync.Cond).Wait", "(*sync.Cond).Signal", "(*sync.Cond).Broadcast":
			return none, true
		case "(*sync.Pool).Get":
			v := u.havocResults(st, sig, "pool")
			return v, true
		case "(*sync.Pool).Put":
			return none, true
		case "(*sync.Map).Load", "(*sync.Map).Store", "(*sync.Map).Delete", "(*sync.Map).Range", "(*sync.Map).LoadOrStore", "(*sync.Map).LoadAndDelete":
			u.note("abstracted", key)
			return u.havocResults(st, sig, "syncmap"), true
		}
	case "sync/atomic":
		if recv != nil {
			// x.f.Op() on an atomic field a lock is declared to guard: the access needs the lock
			if se, ok := ast.Unparen(call.Fun).(*ast.SelectorExpr); ok && len(u.eng.cs.Locks) > 0 {
				if inner, ok := ast.Unparen(se.X).(*ast.SelectorExpr); ok {
					if sel, ok := u.info().Selections[inner]; ok && sel.Kind() == types.FieldVal && len(sel.Index()) == 1 {
						if f, ok := sel.Obj().(*types.Var); ok {
							oT := sel.Recv()
							if p, ok := oT.Underlying().(*types.Pointer); ok {
								oT = p.Elem()
							}
							if u.fieldIsGuarded(oT, f.Name()) {
								base := u.eval(st, inner.X)
								u.checkGuarded(st, oT, f, base.S, call, fn.Name() != "Load")
							}
						}
					}
				}
			}
			return u.atomicOp(st, fn, recv, args, call.Pos())
		}
	case "time":
		switch key {
		case "time.Now":
			return scalar(u.advanceClock(st), SInt, sig.Results().At(0).Type()), true
		case "time.Since":
			now := u.advanceClock(st)
			return scalar(tSub(now, args[0].S), SInt, sig.Results().At(0).Type()), true
		case "time.Until":
			now := u.advanceClock(st)
			return scalar(tSub(args[0].S, now), SInt, sig.Results().At(0).Type()), true
		case "(time.Time).Add":
			u.note("assumptions", "time.Time is an integer nanosecond count; Add never overflows; the zero Time is the distinguished constant TZERO below every clock reading")
			return scalar(tAdd(recv.S, args[0].S), SInt, recv.T), true
		case "(time.Time).Sub":
			return scalar(tSub(recv.S, args[0].S), SInt, sig.Results().At(0).Type()), true
		case "(time.Time).After":
			return boolVal(tLt(args[0].S, recv.S)), true
		case "(time.Time).Before":
			return boolVal(tLt(recv.S, args[0].S)), true
		case "(time.Time).Equal":
			return boolVal(tEq(recv.S, args[0].S)), true
		case "(time.Time).IsZero":
			u.decls.declConst("TZERO", SInt)
			return boolVal(tEq(recv.S, "TZERO")), true
		case "(time.Time).Unix", "(time.Time).UnixNano", "(time.Time).UnixMilli":
			u.decls.declFun("time_"+fn.Name(), []string{SInt}, SInt)
			return scalar(tApp("time_"+fn.Name(), recv.S), SInt, sig.Results().At(0).Type()), true
		case "(time.Duration).Seconds", "(time.Duration).Minutes", "(time.Duration).Hours":
			div := map[string]string{"Seconds": "1000000000.0", "Minutes": "60000000000.0", "Hours": "3600000000000.0"}[fn.Name()]
			return scalar("(/ (to_real "+recv.S+") "+div+")", SReal, sig.Results().At(0).Type()), true
		case "(time.Duration).Milliseconds":
			return scalar(goDiv(recv.S, "1000000"), SInt, sig.Results().At(0).Type()), true
		case "time.Sleep":
			u.advanceClock(st)
			return none, true
		case "time.Unix":
			u.note("abstracted", key)
			v := u.fresh("time.unix", SInt)
			return scalar(v, SInt, sig.Results().At(0).Type()), true
		}
	case "errors":
		switch key {
		case "errors.New":
			r := u.alloc(st, "err")
			return scalar(r, SInt, sig.Results().At(0).Type()), true
		case "errors.Is":
			u.decls.declFun("err_is", []string{SInt, SInt}, SBool)
			t := tApp("err_is", args[0].S, args[1].S)
			st.assume(tImp(tEq(args[0].S, args[1].S), tOr(t, tEq(args[0].S, "0"))))
			st.assume(tImp(tEq(args[0].S, "0"), tOr(tNot(t), tEq(args[1].S, "0"))))
			return boolVal(t), true
		}
	case "fmt":
		switch key {
		case "fmt.Errorf":
			r := u.alloc(st, "err")
			return scalar(r, SInt, sig.Results().At(0).Type()), true
		case "fmt.Sprintf", "fmt.Sprint", "fmt.Sprintln":
			s := u.fresh("sprintf", SStr)
			st.assume(tLe("0", tApp("slen", s)))
			return scalar(s, SStr, sig.Results().At(0).Type()), true
		case "fmt.Printf", "fmt.Println", "fmt.Print", "fmt.Fprintf", "fmt.Fprintln":
			return u.havocResults(st, sig, "fmt"), true
		}
	case "strings":
		switch key {
		case "strings.HasPrefix":
			u.decls.declFun("sprefix", []string{SStr, SStr}, SBool)
			t := tApp("sprefix", args[0].S, args[1].S)
			st.assume(tImp(t, tLe(tApp("slen", args[1].S), tApp("slen", args[0].S))))
			return boolVal(t), true
		}
	case "encoding/json":
		switch key {
		case "encoding/json.Unmarshal":
			// the decoder may set every field of the struct the second argument points to
			if len(args) == 2 && len(call.Args) == 2 {
				if T := u.typeOf(call.Args[1]); T != nil {
					if p, ok := T.Underlying().(*types.Pointer); ok && isStructVal(p.Elem()) {
						u.havocStruct(st, p.Elem(), u.ifaceTarget(args[1]))
					} else if pp, ok2 := pointerToStructPointer(T); ok && ok2 {
						// json.Unmarshal(data, &p) with p a *Struct: the decoder may leave p alone (filling the struct it
						// points to), point it to a new struct, or - for the JSON value null - set it to nil
						cur := u.loadAt(st, "P$"+typeKey(p.Elem()), p.Elem(), args[1].S)
						if cur.S != "" {
							u.havocStruct(st, pp, cur.S)
						}
						fresh := u.alloc(st, "unmarshal.new")
						u.havocStruct(st, pp, fresh)
						c1 := u.fresh("unmarshal.null", SBool)
						c2 := u.fresh("unmarshal.keep", SBool)
						nv := scalar(tIte(c1, "0", tIte(c2, cur.S, fresh)), SInt, p.Elem())
						u.storeAt(st, "P$"+typeKey(p.Elem()), p.Elem(), args[1].S, nv)
					} else {
						u.note("abstracted", "json.Unmarshal into "+T.String()+" (target not havoc'd)")
					}
				}
			}
			return u.havocResults(st, sig, "unmarshal"), true
		}
	case "encoding/binary":
		// the big/little endian accessors are given by contracts in specs/std.gocv
	}
	return Val{}, false
}

// pointerToStructPointer: T is **S for a struct type S; returns S.
func pointerToStructPointer(T types.Type) (types.Type, bool) {
	p, ok := T.Underlying().(*types.Pointer)
	if !ok {
		return nil, false
	}
	q, ok := p.Elem().Underlying().(*types.Pointer)
	if !ok || !isStructVal(q.Elem()) {
		return nil, false
	}
	return q.Elem(), true
}

// ---- atomics ----

func (u *Unit) atomicOp(st *State, fn *types.Func, recv *Val, args []Val, pos token.Pos) (Val, bool) {
	sig := fn.Type().(*types.Signature)
	rt := recv.T
	if p, ok := rt.Underlying().(*types.Pointer); ok {
		rt = p.Elem()
	}
	tn := ""
	if n, ok := types.Unalias(rt).(*types.Named); ok {
		tn = n.Obj().Name()
	}
	heap, sort := "ATOM$int", SInt
	var valT types.Type = types.Typ[types.Int64]
	switch tn {
	case "Bool":
		heap, sort, valT = "ATOM$bool", SBool, types.Typ[types.Bool]
	case "Int32":
		valT = types.Typ[types.Int32]
	case "Int64":
		valT = types.Typ[types.Int64]
	case "Uint32":
		valT = types.Typ[types.Uint32]
	case "Uint64":
		valT = types.Typ[types.Uint64]
	case "Value", "Pointer":
		heap = "ATOM$ref"
		valT = nil
	default:
		return Val{}, false
	}
	hs := sArr(SInt, sort)
	cur := func() Term { return tSel(u.heapTerm(st, heap, hs), recv.S) }
	set := func(v Term) {
		u.logWrite(st, heap, recv.S)
		u.setHeap(st, heap, hs, tStore(u.heapTerm(st, heap, hs), recv.S, v))
		// declared invariant of a shared atomic: every value this function writes must satisfy it
		if r := u.root(); r.contract != nil && r.contract.Flags["shared_atomics"] != "" {
			if inv := r.contract.Flags["atomic_inv"]; inv != "" {
				if e, err := parseSpecExpr(inv); err == nil {
					env := u.invEnv(st, pos)
					env.vars["v"] = scalar(v, sort, nil)
					if t, err := u.specBool(env, Clause{Text: inv, Expr: e, Where: r.contract.Where}); err == nil {
						u.oblige(st, "atomic-inv", fn.Name()+"@"+u.seqLabel("atomic-inv", pos), t, pos)
					} else {
						u.reject("contract error: %v", err)
					}
				}
			}
		}
	}
	u.atomicInterference(st, heap, hs, recv, pos)
	res := func(t Term) Val {
		if sig.Results().Len() == 0 {
			return Val{Kind: KTuple}
		}
		return scalar(t, sortOf(sig.Results().At(0).Type()), sig.Results().At(0).Type())
	}
	switch fn.Name() {
	case "Load":
		v := res(cur())
		if valT != nil {
			u.assumeOnce(st, u.typeAssume(scalar(v.S, sort, valT)))
		}
		return v, true
	case "Store":
		if tok, has := u.casToken(st, recv); has {
			// a plain Store to a CAS-protected state word is the privilege of the goroutine that won the transition
			u.oblige(st, "atomic-token", "Store@"+u.seqLabel("atomic-token", pos), tok, pos)
		}
		set(args[0].S)
		return Val{Kind: KTuple}, true
	case "Add":
		nv := tAdd(cur(), args[0].S)
		set(nv)
		u.atomicGhost(st, recv, args[0].S)
		return res(nv), true
	case "Swap":
		old := cur()
		set(args[0].S)
		return res(old), true
	case "CompareAndSwap":
		old := cur()
		ok := tEq(old, args[0].S)
		okc := u.fresh("cas.ok", SBool)
		st.assume(tEq(okc, ok))
		set(tIte(okc, args[1].S, old))
		if tok, has := u.casToken(st, recv); has {
			st.ghost["$castok:"+recv.S] = boolVal(tOr(tok, okc))
		}
		return boolVal(okc), true
	}
	return Val{}, false
}

// atomicInterference: if the atomic field is declared shared (`flag shared_atomics`), other goroutines may have
// changed it since this function last looked: havoc it (under its declared invariant, if any) before every operation.
func (u *Unit) atomicInterference(st *State, heap, hs string, recv *Val, pos token.Pos) {
	r := u.root()
	if r.contract == nil || r.contract.Flags["shared_atomics"] == "" {
		return
	}
	nv := u.fresh("atomic.interf", arrayElemSort(hs))
	u.setHeap(st, heap, hs, tStore(u.heapTerm(st, heap, hs), recv.S, nv))
	if inv := r.contract.Flags["atomic_inv"]; inv != "" {
		e, err := parseSpecExpr(inv)
		if err == nil {
			env := u.invEnv(st, pos)
			env.vars["v"] = scalar(nv, arrayElemSort(hs), nil)
			if t, err := u.specBool(env, Clause{Text: inv, Expr: e, Where: r.contract.Where}); err == nil {
				st.assume(t)
			}
		}
	}
}

// ---- locks ----

type lockSite struct {
	spec  *LockSpec
	owner types.Type
	ref   Term
	key   string
	mu    string
}

func (u *Unit) lockSite(st *State, call *ast.CallExpr) *lockSite {
	se, ok := ast.Unparen(call.Fun).(*ast.SelectorExpr)
	if !ok {
		return nil
	}
	// x.mu.Lock()  or x.Lock() with embedded mutex
	var ownerExpr ast.Expr
	muName := ""
	if inner, ok := ast.Unparen(se.X).(*ast.SelectorExpr); ok {
		if sel, ok := u.info().Selections[inner]; ok && sel.Kind() == types.FieldVal {
			ownerExpr = inner.X
			muName = inner.Sel.Name
			if len(sel.Index()) > 1 {
				// promoted through embedded structs: walk to the direct owner
				base := u.eval(st, inner.X)
				idx := sel.Index()
				ov := u.walkFields(st, base, idx[:len(idx)-1], inner)
				T := ov.T
				return u.mkLockSite(T, ov.S, muName)
			}
		}
	}
	if ownerExpr == nil {
		if sel, ok := u.info().Selections[se]; ok && len(sel.Index()) > 1 {
			base := u.eval(st, se.X)
			idx := sel.Index()
			T := base.T
			if p, ok := T.Underlying().(*types.Pointer); ok {
				T = p.Elem()
			}
			f := structOf(T).Field(idx[0])
			return u.mkLockSite(base.T, base.S, f.Name())
		}
		return nil
	}
	base := u.eval(st, ownerExpr)
	return u.mkLockSite(base.T, base.S, muName)
}

func (u *Unit) mkLockSite(T types.Type, ref Term, mu string) *lockSite {
	if p, ok := T.Underlying().(*types.Pointer); ok {
		T = p.Elem()
	}
	ls := &lockSite{owner: T, ref: ref, mu: mu, key: ref + "." + mu}
	if n, ok := types.Unalias(T).(*types.Named); ok {
		for _, l := range u.eng.cs.Locks {
			if l.Type == n.Obj().Name() && l.Mu == mu && n.Obj().Pkg() != nil && l.PkgPath == n.Obj().Pkg().Path() {
				ls.spec = l
			}
		}
	}
	return ls
}

func (u *Unit) lockOp(st *State, call *ast.CallExpr, op string) {
	ls := u.lockSite(st, call)
	if ls == nil {
		u.note("abstracted", "lock operation "+exprStr(u.eng.fset, call.Fun))
		return
	}
	if ls.spec == nil {
		u.note("locks_without_invariant", typeKey(ls.owner)+"."+ls.mu)
		return
	}
	selfT := types.NewPointer(ls.owner)
	self := scalar(ls.ref, SInt, selfT)
	switch op {
	case "lock", "rlock":
		heapBefore := make(map[string]Term, len(st.heap))
		for hn, t := range st.heap {
			heapBefore[hn] = t
		}
		// other goroutines may have changed everything the lock guards
		s := structOf(ls.owner)
		for _, g := range ls.spec.Guards {
			if strings.HasPrefix(g, "owns:") {
				// a permission ghost the lock owns: whatever this goroutine believed about it is void, the invariant
				// (assumed below) hands out what the lock currently holds
				u.havocOwned(st, strings.TrimPrefix(g, "owns:"))
				continue
			}
			if gh, isGhost := u.eng.cs.Ghosts[g]; isGhost {
				// a ghost the lock protects (shared bookkeeping): havoc it at this object too
				genv := &specEnv{u: u, st: st, vars: map[string]Val{}, pkg: u.pkg.Types}
				sort := u.ghostSort(genv, gh)
				h := u.heapTerm(st, "G$"+gh.Name, sort)
				u.logWrite(st, "G$"+gh.Name, ls.ref)
				u.setHeap(st, "G$"+gh.Name, sort, tStore(h, ls.ref, u.fresh("guarded."+g, arrayElemSort(sort))))
				continue
			}
			for i := 0; i < s.NumFields(); i++ {
				f := s.Field(i)
				if f.Name() != g {
					continue
				}
				if n, isN := types.Unalias(f.Type()).(*types.Named); isN && n.Obj().Pkg() != nil && n.Obj().Pkg().Path() == "sync/atomic" {
					// an atomic the lock protects: other holders of the lock may have changed it
					heap := atomicHeapOf(f.Type())
					asort := SInt
					if heap == "ATOM$bool" {
						asort = SBool
					}
					sub := u.fieldRead(st, ls.owner, f, ls.ref)
					hs := sArr(SInt, asort)
					u.logWrite(st, heap, sub.S)
					u.setHeap(st, heap, hs, tStore(u.heapTerm(st, heap, hs), sub.S, u.fresh("guarded."+g, asort)))
					continue
				}
				if isStructVal(f.Type()) || isArrayT(f.Type()) || isOpaqueStruct(f.Type()) {
					continue
				}
				nv := u.freshVal("guarded."+g, f.Type())
				st.assume(u.typeAssume(nv))
				u.assumeRefBelowFrontier(st, nv)
				u.storeAt(st, fieldHeap(ls.owner, g), f.Type(), ls.ref, nv)
				if mt, ok := f.Type().Underlying().(*types.Map); ok {
					u.havocMap(st, mt, nv.S)
				}
			}
		}
		if ls.spec.Inv != nil {
			env := &specEnv{u: u, st: st, old: st.old, vars: map[string]Val{"self": self}, pkg: u.eng.pkgTypes(ls.spec.PkgPath, u.pkg.Types)}
			t, err := u.specBool(env, *ls.spec.Inv)
			if err != nil {
				u.reject("contract error: %v", err)
			} else {
				st.assume(t)
			}
		}
		if op == "lock" {
			st.held[ls.key] = true
		} else {
			st.held[ls.key] = false // read lock
			st.held[ls.key+"#r"] = true
		}
		// linearisation point for old(): the first acquisition of each lock. What this lock guards takes its
		// old() value from the state right after this acquisition; everything else keeps its earlier snapshot.
		if _, done := st.ghost["$lin:"+ls.key]; !done {
			st.ghost["$lin:"+ls.key] = boolVal("true")
			if _, any := st.ghost["$lin"]; !any {
				st.ghost["$lin"] = boolVal("true")
				snap := st.fork()
				snap.old = nil
				st.old = snap
			} else {
				snap := st.old.fork()
				snap.old = nil
				for hn, t := range st.heap {
					if heapBefore[hn] != t {
						snap.heap[hn] = t
					}
				}
				snap.pc = st.pc[:len(st.pc):len(st.pc)]
				st.old = snap
			}
		}
	case "unlock", "runlock":
		if ls.spec.Inv != nil && op == "unlock" {
			env := &specEnv{u: u, st: st, old: st.old, vars: map[string]Val{"self": self}, pkg: u.eng.pkgTypes(ls.spec.PkgPath, u.pkg.Types)}
			t, err := u.specBool(env, *ls.spec.Inv)
			if err != nil {
				u.reject("contract error: %v", err)
			} else {
				// one obligation per conjunct of the invariant: finer names, smaller queries
				lbl := ls.mu + "@" + u.seqLabel("lock-inv", call.Pos())
				parts := splitGoal(t)
				for pi, pt := range parts {
					l := lbl
					if len(parts) > 1 {
						l = fmt.Sprintf("%s.%d", lbl, pi+1)
					}
					u.oblige(st, "lock-inv", l, pt, call.Pos())
				}
			}
		}
		delete(st.held, ls.key)
		delete(st.held, ls.key+"#r")
		// permissions the lock owns go back to the lock: nothing learnt about them under the lock survives the release
		for _, g := range ls.spec.Guards {
			if strings.HasPrefix(g, "owns:") {
				u.havocOwned(st, strings.TrimPrefix(g, "owns:"))
			}
		}
	}
}

func (u *Unit) havocOwned(st *State, name string) {
	gh, ok := u.eng.cs.Ghosts[name]
	if !ok {
		u.reject("contract error: lock owns unknown ghost %s", name)
		return
	}
	genv := &specEnv{u: u, st: st, vars: map[string]Val{}, pkg: u.pkg.Types}
	sort := u.ghostSort(genv, gh)
	u.heapTerm(st, "G$"+gh.Name, sort)
	u.havocHeap(st, "G$"+gh.Name)
}

// fieldIsGuarded: some lock spec of the named type T lists field name.
func (u *Unit) fieldIsGuarded(T types.Type, name string) bool {
	n, ok := types.Unalias(T).(*types.Named)
	if !ok || n.Obj().Pkg() == nil {
		return false
	}
	for _, l := range u.eng.cs.Locks {
		if l.Type != n.Obj().Name() || l.PkgPath != n.Obj().Pkg().Path() {
			continue
		}
		for _, g := range l.Guards {
			if g == name {
				return true
			}
		}
	}
	return false
}

// checkGuarded emits an obligation when a lock-guarded field is accessed without the lock.
func (u *Unit) checkGuarded(st *State, owner types.Type, f *types.Var, ref Term, at ast.Node, write bool) {
	n, ok := types.Unalias(owner).(*types.Named)
	if !ok || n.Obj().Pkg() == nil {
		return
	}
	r := u.root()
	if r.contract != nil && (r.contract.Flags["constructor"] != "" || r.contract.Flags["noguardcheck"] != "") {
		return
	}
	for _, l := range u.eng.cs.Locks {
		if l.Type != n.Obj().Name() || l.PkgPath != n.Obj().Pkg().Path() {
			continue
		}
		for _, g := range l.Guards {
			if g != f.Name() {
				continue
			}
			key := ref + "." + l.Mu
			heldW, any := st.held[key]
			if r.contract != nil && strings.Contains(" "+r.contract.Flags["held"]+" ", " "+l.Mu+" ") {
				heldW, any = true, true
			}
			okT := "true"
			if !any {
				okT = "false"
			} else if write && !heldW {
				okT = "false"
			}
			kind := "read"
			if write {
				kind = "write"
			}
			u.oblige(st, "guarded", fmt.Sprintf("%s.%s:%s@%s", l.Type, g, kind, u.seqLabel("guarded", at.Pos())), okT, at.Pos())
		}
	}
}


// ifaceTarget: the reference held by an interface value that was built from a pointer.
func (u *Unit) ifaceTarget(v Val) Term { return v.S }

// havocStruct gives every modelled field of the struct at ref a fresh value (nested struct values recursively).
func (u *Unit) havocStruct(st *State, T types.Type, ref Term) {
	s := structOf(T)
	if s == nil || isOpaqueStruct(T) {
		return
	}
	for i := 0; i < s.NumFields(); i++ {
		f := s.Field(i)
		if isOpaqueStruct(f.Type()) {
			continue
		}
		if isStructVal(f.Type()) {
			u.havocStruct(st, f.Type(), u.fieldRead(st, T, f, ref).S)
			continue
		}
		if isArrayT(f.Type()) {
			continue
		}
		nv := u.freshVal("json."+f.Name(), f.Type())
		st.assume(u.typeAssume(nv))
		u.assumeRefBelowFrontier(st, nv)
		u.storeAt(st, fieldHeap(T, f.Name()), f.Type(), ref, nv)
	}
}


// atomicGhost: `flag atomic_ghost <field> <ghost>` - every Add(d) on the atomic field <field> of an object also adds d to
// the ghost g(<object>): the calling goroutine's own net contribution to a shared counter (thread-local accounting).
func (u *Unit) atomicGhost(st *State, recv *Val, delta Term) {
	r := u.root()
	if r.contract == nil {
		return
	}
	f := strings.Fields(r.contract.Flags["atomic_ghost"])
	if len(f) != 2 {
		return
	}
	t := recv.S
	if !strings.HasPrefix(t, "(sub$") || !strings.Contains(strings.SplitN(t, " ", 2)[0], "."+f[0]) {
		return
	}
	owner := strings.TrimSuffix(strings.SplitN(t, " ", 2)[1], ")")
	g := u.eng.cs.Ghosts[f[1]]
	if g == nil {
		u.reject("atomic_ghost: unknown ghost %s", f[1])
		return
	}
	sort := sArr(SInt, SInt)
	h := u.heapTerm(st, "G$"+g.Name, sort)
	u.logWrite(st, "G$"+g.Name, owner)
	u.setHeap(st, "G$"+g.Name, sort, tStore(h, owner, tAdd(tSel(h, owner), delta)))
}


// casToken: `flag cas_token <field>` - the atomic field <field> is a state word whose transitions are claimed by
// CompareAndSwap; returns the current "this goroutine won a transition" token for that word.
func (u *Unit) casToken(st *State, recv *Val) (Term, bool) {
	r := u.root()
	if r.contract == nil || r.contract.Flags["cas_token"] == "" {
		return "", false
	}
	f := r.contract.Flags["cas_token"]
	t := recv.S
	if !strings.HasPrefix(t, "(sub$") || !strings.Contains(strings.SplitN(t, " ", 2)[0], "."+f) {
		return "", false
	}
	if v, ok := st.ghost["$castok:"+recv.S]; ok {
		return v.S, true
	}
	return "false", true
}
