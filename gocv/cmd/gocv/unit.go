package main

import (
	"fmt"
	"go/ast"
	"go/token"
	"go/types"
	"sort"
	"strings"

	"golang.org/x/tools/go/packages"
)

type Obligation struct {
	Name   string
	Kind   string
	Func   string
	Goal   Term
	PC     []Term
	Where  string
	Trace  []string
	Expect string // "unsat" (valid) or "sat" (cover)
	Inputs map[string]Term
	// filled by the solver stage
	Result  string
	Backend string
	TimeS   float64
	Output  string
	SMTLen  int
	Short   bool // expected to fail (open known finding): one short attempt
	Cached  bool
}

type Unit struct {
	eng      *Engine
	pkg      *packages.Package
	name     string // display name of the function under verification
	fnObj    *types.Func
	sig      *types.Signature
	recv     *ast.FieldList
	ftype    *ast.FuncType
	body     *ast.BlockStmt
	contract *Contract
	decls    *Decls
	nfresh   int
	obls     []*Obligation
	entry    *State
	resNames []string
	resVars  []*types.Var
	resObjs  []types.Object // named result objects (nil if unnamed)
	loopOrd  map[ast.Node]int
	cloOrd   map[*ast.FuncLit]int
	guards   []Term
	axioms   []Term
	bstrDecl bool
	bstrSeen map[string]bool
	ghostBounded map[string]bool
	frontier0 Term
	notes    map[string]map[string]bool
	assumed  map[string]bool
	heapSort map[string]string
	strLits  map[string]Term
	paths    int
	rejected string
	inlining int
	specEnv0 *specEnv // env with params, for contract evaluation
	curFile  *ast.File
	kindSeq  map[string]int
	retCount int
	parent   *Unit
	inputs   map[string]Term
	writeLog  map[string][]Term
	logging   bool
	allocSyms map[Term]bool
	spawnUnits []*Unit
	loopGuards []loopGuard
	replay     *replayTpl
}

// loopGuard: while the body of a loop whose heap frame was assumed in quantified form is executed, every write to
// that heap must go to a reference that is new since the loop head or to one of the explicitly excluded ones.
type loopGuard struct {
	heap    string
	allowed []Term
	fpre    Term
	ord     int
}

func (u *Unit) logWrite(st *State, heap string, idx Term) {
	r := u.root()
	if r.logging {
		r.writeLog[heap] = append(r.writeLog[heap], idx)
		return
	}
	for _, g := range r.loopGuards {
		if g.heap != heap {
			continue
		}
		alts := []Term{tNot(isOld(idx, g.fpre))}
		for _, a := range g.allowed {
			alts = append(alts, tEq(idx, a))
		}
		u.oblige(st, "loop-frame", fmt.Sprintf("%d:%s", g.ord, heap), tOr(alts...), 0)
	}
}

func (u *Unit) note(kind, what string) {
	if u.parent != nil {
		u.parent.note(kind, what)
		return
	}
	if u.notes == nil {
		u.notes = map[string]map[string]bool{}
	}
	if u.notes[kind] == nil {
		u.notes[kind] = map[string]bool{}
	}
	u.notes[kind][what] = true
}

func (u *Unit) reject(format string, a ...any) {
	if u.rejected == "" {
		u.rejected = fmt.Sprintf(format, a...)
	}
}

func (u *Unit) fresh(prefix, sort string) Term {
	u.nfresh++
	n := fmt.Sprintf("%s!%d", smtName(prefix), u.nfresh)
	u.decls.declConst(n, sort)
	return n
}

func (u *Unit) freshVal(prefix string, T types.Type) Val {
	if isSliceT(T) {
		return Val{Kind: KSlice, T: T, Arr: u.fresh(prefix+".arr", SInt), Off: u.fresh(prefix+".off", SInt), Len: u.fresh(prefix+".len", SInt), Cap: u.fresh(prefix+".cap", SInt)}
	}
	if tup, ok := T.(*types.Tuple); ok {
		v := Val{Kind: KTuple, T: T}
		for i := 0; i < tup.Len(); i++ {
			v.Elems = append(v.Elems, u.freshVal(fmt.Sprintf("%s.%d", prefix, i), tup.At(i).Type()))
		}
		return v
	}
	return scalar(u.fresh(prefix, sortOf(T)), sortOf(T), T)
}

// typeAssume returns the well-formedness facts of a value of Go type T.
func (u *Unit) typeAssume(v Val) Term {
	switch v.Kind {
	case KSlice:
		return tAnd(tLe("0", v.Off), tLe("0", v.Len), tLe(v.Len, v.Cap), tLe("0", v.Arr),
			tImp(tEq(v.Arr, "0"), tAnd(tEq(v.Len, "0"), tEq(v.Cap, "0"), tEq(v.Off, "0"))))
	case KTuple:
		var cs []Term
		for _, e := range v.Elems {
			cs = append(cs, u.typeAssume(e))
		}
		return tAnd(cs...)
	}
	if v.T == nil {
		return "true"
	}
	if isTimeTime(v.T) {
		return "true"
	}
	if lo, hi, ok := intRange(v.T); ok {
		return tAnd(tLe(lo, v.S), tLe(v.S, hi))
	}
	if v.Sort == SStr {
		return tLe("0", tApp("slen", v.S))
	}
	switch v.T.Underlying().(type) {
	case *types.Pointer, *types.Map, *types.Chan, *types.Signature, *types.Interface, *types.Struct:
		return tLe("0", v.S)
	case *types.Array:
		return "true"
	}
	return "true"
}

func (u *Unit) where(pos token.Pos) string {
	p := u.eng.fset.Position(pos)
	return fmt.Sprintf("%s:%d", p.Filename, p.Line)
}

// ---- obligations ----

func (u *Unit) curGuard() Term { return tAnd(u.guards...) }

func (u *Unit) oblige(st *State, kind, label string, goal Term, pos token.Pos) {
	if goal == "true" {
		// trivially true obligations are still counted (discharged syntactically)
	}
	root := u
	for root.parent != nil {
		root = root.parent
	}
	name := fmt.Sprintf("%s#%s", root.name, kind)
	if label != "" {
		name += ":" + label
	}
	g := tImp(u.curGuard(), goal)
	pc := st.pc[:len(st.pc):len(st.pc)]
	if kind == "dec" && len(st.decPC) > 0 {
		pc = append(append([]Term{}, st.pc...), st.decPC...)
	}
	o := &Obligation{Name: name, Kind: kind, Func: root.name, Goal: g, PC: pc, Where: u.where(pos), Trace: st.trace, Expect: "unsat", Inputs: root.inputs}
	if g == "false" {
		o.Short = true // holds only if the path is dead: one attempt decides that or nothing does
	}
	root.obls = append(root.obls, o)
}

func (u *Unit) cover(st *State, label string, pos token.Pos) {
	root := u
	for root.parent != nil {
		root = root.parent
	}
	name := fmt.Sprintf("%s#cover:%s", root.name, label)
	for _, t := range st.pc {
		if t == "false" {
			return // a path already cut syntactically says nothing about reachability; do not let it use up a sample
		}
	}
	if root.kindSeq == nil {
		root.kindSeq = map[string]int{}
	}
	root.kindSeq["cover#"+name]++
	limit := 3
	if strings.HasPrefix(label, "premise:") {
		limit = 8 // the premise of a postcondition is typically satisfiable on few of the return paths
	}
	if root.kindSeq["cover#"+name] > limit {
		return // aggregated "any instance reachable": a few instances suffice
	}
	o := &Obligation{Name: name, Kind: "cover", Func: root.name, Goal: "false", PC: st.pc[:len(st.pc):len(st.pc)], Where: u.where(pos), Trace: st.trace, Expect: "sat"}
	root.obls = append(root.obls, o)
}

// ---- heap ----

func (u *Unit) root() *Unit {
	r := u
	for r.parent != nil {
		r = r.parent
	}
	return r
}

func (u *Unit) heapTerm(st *State, name, sort string) Term {
	r := u.root()
	if old, ok := r.heapSort[name]; ok && old != sort {
		panic(fmt.Sprintf("heap %s used at sorts %s and %s", name, old, sort))
	}
	r.heapSort[name] = sort
	if t, ok := st.heap[name]; ok {
		return t
	}
	t := smtName(name) + "!0"
	u.decls.declConst(t, sort)
	return t
}

func (u *Unit) setHeap(st *State, name, sort string, t Term) {
	// name the new heap to keep terms small
	n := u.fresh(name, sort)
	st.assume(tEq(n, t))
	st.heap[name] = n
	u.root().heapSort[name] = sort
}

func (u *Unit) havocHeap(st *State, name string) {
	sort, ok := u.root().heapSort[name]
	if !ok {
		return
	}
	st.heap[name] = u.fresh(name, sort)
}

// loadAt reads a value of Go type T from the heap family `base` at index idx.
func (u *Unit) loadAt(st *State, base string, T types.Type, idx Term) Val {
	if isSliceT(T) {
		v := Val{Kind: KSlice, T: T}
		v.Arr = tSel(u.heapTerm(st, base+".arr", sArr(SInt, SInt)), idx)
		v.Off = tSel(u.heapTerm(st, base+".off", sArr(SInt, SInt)), idx)
		v.Len = tSel(u.heapTerm(st, base+".len", sArr(SInt, SInt)), idx)
		v.Cap = tSel(u.heapTerm(st, base+".cap", sArr(SInt, SInt)), idx)
		u.assumeOnce(st, u.typeAssume(v))
		u.assumeOnce(st, tLt(v.Arr, st.frontier))
		return v
	}
	s := sortOf(T)
	v := scalar(tSel(u.heapTerm(st, base, sArr(SInt, s)), idx), s, T)
	if _, _, ok := intRange(T); ok || s == SStr {
		u.assumeOnce(st, u.typeAssume(v))
	} else if s == SInt && !isTimeTime(T) {
		u.assumeOnce(st, tAnd(tLe("0", v.S), tLt(v.S, st.frontier)))
	}
	return v
}

func (u *Unit) assumeOnce(st *State, t Term) {
	if t == "true" || strings.Contains(t, "!q") {
		// facts about terms that mention a bound variable cannot be asserted outside the quantifier
		return
	}
	for i := len(st.pc) - 1; i >= 0 && i >= len(st.pc)-200; i-- {
		if st.pc[i] == t {
			return
		}
	}
	st.assume(t)
}

func (u *Unit) storeAt(st *State, base string, T types.Type, idx Term, v Val) {
	if isSliceT(T) {
		if v.Kind != KSlice {
			panic("storeAt: slice expected for " + base + " got " + v.String())
		}
		for _, c := range []struct {
			suf string
			t   Term
		}{{".arr", v.Arr}, {".off", v.Off}, {".len", v.Len}, {".cap", v.Cap}} {
			h := u.heapTerm(st, base+c.suf, sArr(SInt, SInt))
			u.logWrite(st, base+c.suf, idx)
			u.setHeap(st, base+c.suf, sArr(SInt, SInt), tStore(h, idx, c.t))
		}
		return
	}
	s := sortOf(T)
	h := u.heapTerm(st, base, sArr(SInt, s))
	u.logWrite(st, base, idx)
	u.setHeap(st, base, sArr(SInt, s), tStore(h, idx, v.S))
}

// field heap base name
func fieldHeap(owner types.Type, field string) string {
	return "F$" + typeKey(owner) + "." + field
}

// element heap for slices/arrays-behind-refs: E$<elem> : Array Int (Array Int elemSort)
func (u *Unit) elemHeapName(elem types.Type) (string, string) {
	if isSliceT(elem) {
		return "E$" + typeKey(elem), ""
	}
	return "E$" + typeKey(elem), sArr(SInt, sArr(SInt, sortOf(elem)))
}

func (u *Unit) loadElem(st *State, elem types.Type, arr, idx Term) Val {
	if isSliceT(elem) {
		v := Val{Kind: KSlice, T: elem}
		base := "E$" + typeKey(elem)
		get := func(suf string) Term {
			return tSel(tSel(u.heapTerm(st, base+suf, sArr(SInt, sArr(SInt, SInt))), arr), idx)
		}
		v.Arr, v.Off, v.Len, v.Cap = get(".arr"), get(".off"), get(".len"), get(".cap")
		u.assumeOnce(st, u.typeAssume(v))
		u.assumeOnce(st, tLt(v.Arr, st.frontier))
		return v
	}
	name, sort := u.elemHeapName(elem)
	s := sortOf(elem)
	v := scalar(tSel(tSel(u.heapTerm(st, name, sort), arr), idx), s, elem)
	if _, _, ok := intRange(elem); ok || s == SStr {
		u.assumeOnce(st, u.typeAssume(v))
	} else if s == SInt && !isTimeTime(elem) {
		u.assumeOnce(st, tAnd(tLe("0", v.S), tLt(v.S, st.frontier)))
	}
	return v
}

func (u *Unit) storeElem(st *State, elem types.Type, arr, idx Term, v Val) {
	if isSliceT(elem) {
		base := "E$" + typeKey(elem)
		for _, c := range []struct {
			suf string
			t   Term
		}{{".arr", v.Arr}, {".off", v.Off}, {".len", v.Len}, {".cap", v.Cap}} {
			sort := sArr(SInt, sArr(SInt, SInt))
			h := u.heapTerm(st, base+c.suf, sort)
			u.logWrite(st, base+c.suf, arr)
			u.setHeap(st, base+c.suf, sort, tStore(h, arr, tStore(tSel(h, arr), idx, c.t)))
		}
		return
	}
	name, sort := u.elemHeapName(elem)
	h := u.heapTerm(st, name, sort)
	u.logWrite(st, name, arr)
	u.setHeap(st, name, sort, tStore(h, arr, tStore(tSel(h, arr), idx, v.S)))
}

// elemArray returns the whole content array term of backing array arr.
func (u *Unit) elemArray(st *State, elem types.Type, arr Term) Term {
	name, sort := u.elemHeapName(elem)
	return tSel(u.heapTerm(st, name, sort), arr)
}

func (u *Unit) setElemArray(st *State, elem types.Type, arr Term, content Term) {
	name, sort := u.elemHeapName(elem)
	h := u.heapTerm(st, name, sort)
	u.logWrite(st, name, arr)
	u.setHeap(st, name, sort, tStore(h, arr, content))
}

// isOld: reference r denotes an object that existed when the allocation frontier was F
// (embedded sub-objects are negative and inherit the age of their owner).
func isOld(r, F Term) Term {
	return fmt.Sprintf("(or (and (<= 0 %s) (< %s %s)) (and (< %s 0) (<= 0 (owner %s)) (< (owner %s) %s)))", r, r, F, r, r, r, F)
}

// rootOfSub strips (sub$... X) wrappers.
func rootOfSub(t Term) Term {
	for strings.HasPrefix(t, "(sub$") && strings.HasSuffix(t, ")") {
		i := strings.Index(t, " ")
		if i < 0 {
			break
		}
		t = t[i+1 : len(t)-1]
	}
	return t
}

// alloc returns a fresh reference.
func (u *Unit) alloc(st *State, prefix string) Term {
	r := u.fresh(prefix, SInt)
	if rt := u.root(); rt.allocSyms == nil {
		rt.allocSyms = map[Term]bool{r: true}
	} else {
		rt.allocSyms[r] = true
	}
	allocSymsNow = u.root().allocSyms
	st.assume(tAnd(tEq(r, st.frontier), tLt("0", r)))
	nf := u.fresh("frontier", SInt)
	st.assume(tEq(nf, tAdd(st.frontier, "1")))
	st.frontier = nf
	return r
}

// ---- strings ----

func (u *Unit) strLit(s string) Term {
	r := u.root()
	if t, ok := r.strLits[s]; ok {
		return t
	}
	n := fmt.Sprintf("str!%d", len(r.strLits))
	u.decls.declConst(n, SStr)
	r.strLits[s] = n
	ax := []Term{tEq(tApp("slen", n), tInt(int64(len(s))))}
	if len(s) <= 16 {
		for i := 0; i < len(s); i++ {
			ax = append(ax, tEq(tApp("sat", n, tInt(int64(i))), tInt(int64(s[i]))))
		}
	}
	r.axioms = append(r.axioms, ax...)
	return n
}

func (u *Unit) strDistinctAxiom() Term {
	r := u.root()
	if len(r.strLits) < 2 {
		return "true"
	}
	var ks []string
	for _, t := range r.strLits {
		ks = append(ks, t)
	}
	sort.Strings(ks)
	return "(distinct " + strings.Join(ks, " ") + ")"
}

func baseDecls() *Decls {
	d := newDecls()
	d.raw("Str", "(declare-sort Str 0)")
	d.declFun("slen", []string{SStr}, SInt)
	d.declFun("sat", []string{SStr, SInt}, SInt)
	d.declFun("sconcat", []string{SStr, SStr}, SStr)
	d.declFun("ssub", []string{SStr, SInt, SInt}, SStr)
	d.declFun("dyntype", []string{SInt}, SInt)
	d.declFun("owner", []string{SInt}, SInt)
	return d
}

// printed form of an expression, for labels
func exprStr(fset *token.FileSet, e ast.Node) string {
	var b strings.Builder
	printNode(&b, fset, e)
	s := b.String()
	s = strings.Join(strings.Fields(s), " ")
	if len(s) > 60 {
		s = s[:57] + "..."
	}
	return s
}
