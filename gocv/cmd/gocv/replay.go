package main

// tryReplay turns a solver model into a run of the real code. Returns (reproduced, info).
func tryReplay(prop, name string, o *Obligation, rec map[string]any) (bool, string) {
	return false, ""
}
