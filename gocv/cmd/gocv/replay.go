package main

// Replay: turning a failed obligation into a run of the real code.
//
// For functions whose inputs are plain data (integers, booleans, strings, byte slices; a receiver that can be built as
// a zero value with plain fields) a failed obligation is followed up in three steps:
//
//  A. model search: the failed query is asked again without its quantified hypotheses (which make the solvers answer
//     "unknown") and with small bounds on the lengths of the inputs; a model gives concrete inputs. Dropping hypotheses
//     can only make the candidate spurious, never hide anything: the candidate is not believed, it is run.
//  B. run: a test that calls the real function with those inputs is injected with `go test -overlay` (nothing is
//     written to /repo) and prints what the function returned (or the panic).
//  C. judge: for a postcondition, the clause is instantiated on the concrete inputs and the values the real code
//     returned, with every hypothesis (also the quantified ones) present, and the solver is asked whether the clause can
//     hold; "unsat" means the real code's answer contradicts the contract for this input: a confirmed counterexample.
//     For a no-panic obligation (bounds, nil, division, nil map) the run panicking is the confirmation.
//
// Anything else (solver finds no model, the run does not violate the clause) leaves the obligation's verdict as it was
// and the VIOLATION line keeps its no-failing-input-found suffix.

import (
	"bytes"
	"context"
	"encoding/hex"
	"encoding/json"
	"fmt"
	"go/types"
	"os"
	"os/exec"
	"path/filepath"
	"regexp"
	"sort"
	"strconv"
	"strings"
	"time"
)

type rpVar struct {
	Name  string // Go identifier of the parameter / field / result
	Kind  string // int, uint, bool, string, bytes, stream (io.Reader/Writer double), error, ref (nil-ness only), struct (*T with plain fields)
	GoT   string // Go type text usable inside the function's package
	Val   Val
	Field bool
	// stream: spec terms of the reader/writer ghosts before and after the call
	pre, post map[string]Term
	// struct result: its plain fields
	sub []rpVar
}

type replayTpl struct {
	pkgDir   string
	pkgName  string
	fn       string // function name
	recvT    string // "" for plain functions; type name
	recvPtr  bool
	recvVal  Val
	fields   []rpVar
	params   []rpVar
	results  []rpVar
	posts    map[string]Term
	pc       []Term
	variadic bool
}

func rpKind(T types.Type, pkg *types.Package) (kind, goT string, ok bool) {
	T = types.Unalias(T)
	name := func() (string, bool) {
		switch t := T.(type) {
		case *types.Basic:
			return t.Name(), true
		case *types.Named:
			if t.Obj().Pkg() == pkg && t.TypeArgs().Len() == 0 {
				return t.Obj().Name(), true
			}
			if t.Obj().Pkg() == nil {
				return t.Obj().Name(), true
			}
		}
		return "", false
	}
	if isSliceT(T) {
		if b, isB := T.Underlying().(*types.Slice).Elem().Underlying().(*types.Basic); isB && b.Kind() == types.Uint8 {
			if _, named := T.(*types.Named); !named {
				return "bytes", "[]byte", true
			}
		}
		return "", "", false
	}
	b, isB := T.Underlying().(*types.Basic)
	if !isB {
		return "", "", false
	}
	n, okN := name()
	if !okN {
		return "", "", false
	}
	switch {
	case b.Info()&types.IsBoolean != 0:
		return "bool", n, true
	case b.Info()&types.IsUnsigned != 0:
		return "uint", n, true
	case b.Info()&types.IsInteger != 0:
		return "int", n, true
	case b.Info()&types.IsString != 0:
		return "string", n, true
	}
	return "", "", false
}

// streamDouble: T is an interface the generated double can stand in for (every method is one the double has, and it
// reads or writes).
func streamDouble(T types.Type) bool {
	it, ok := T.Underlying().(*types.Interface)
	if !ok || it.NumMethods() == 0 {
		return false
	}
	have := map[string]bool{"Read": true, "Write": true, "Close": true, "LocalAddr": true, "RemoteAddr": true, "SetDeadline": true, "SetReadDeadline": true, "SetWriteDeadline": true}
	rw := false
	for i := 0; i < it.NumMethods(); i++ {
		n := it.Method(i).Name()
		if !have[n] {
			return false
		}
		if n == "Read" || n == "Write" {
			rw = true
		}
	}
	return rw
}

var reStreamMod = regexp.MustCompile(`^(rpos|rfail|rdone|wpos|wdata|wfail)\((\w+)\)$`)

// buildReplayTemplate records, for a function in the replayable subset, its postconditions instantiated over fresh
// result values in the entry state.
func (u *Unit) buildReplayTemplate(key string, env *specEnv, c *Contract) {
	if u.parent != nil || strings.ContainsAny(key, "$@") || u.fnObj == nil || u.rejected != "" || u.entry == nil {
		return
	}
	if u.sig.TypeParams().Len() > 0 || u.sig.RecvTypeParams().Len() > 0 {
		return
	}
	if c.Flags["noframe"] != "" {
		return
	}
	// the judgement step evaluates the postcondition in the entry heap: only for functions that change nothing - or
	// nothing but the reader/writer ghosts of a stream parameter, which the run's observations pin down
	for _, m := range c.Modifies {
		if !reStreamMod.MatchString(strings.ReplaceAll(m.Text, " ", "")) {
			return
		}
	}
	pkg := u.pkg.Types
	t := &replayTpl{pkgName: pkg.Name(), fn: u.fnObj.Name(), posts: map[string]Term{}}
	if len(u.pkg.GoFiles) == 0 {
		return
	}
	t.pkgDir = filepath.Dir(u.pkg.GoFiles[0])
	if u.sig.Variadic() {
		return
	}
	for i := 0; i < u.sig.Params().Len(); i++ {
		p := u.sig.Params().At(i)
		k, g, ok := rpKind(p.Type(), pkg)
		if !ok && streamDouble(p.Type()) && p.Name() != "" && p.Name() != "_" {
			k, g, ok = "stream", "", true
		}
		if !ok || p.Name() == "" || p.Name() == "_" {
			if p.Name() == "" || p.Name() == "_" {
				// unnamed parameter: any value will do, but only for plain kinds
				if ok {
					t.params = append(t.params, rpVar{Name: "", Kind: k, GoT: g})
					continue
				}
			}
			return
		}
		v, have := env.vars[p.Name()]
		if !have {
			return
		}
		t.params = append(t.params, rpVar{Name: p.Name(), Kind: k, GoT: g, Val: v})
	}
	if r := u.sig.Recv(); r != nil {
		rT := types.Unalias(r.Type())
		if p, ok := rT.(*types.Pointer); ok {
			t.recvPtr = true
			rT = types.Unalias(p.Elem())
		}
		n, ok := rT.(*types.Named)
		if !ok || n.Obj().Pkg() != pkg || n.TypeArgs().Len() > 0 {
			return
		}
		s, ok := n.Underlying().(*types.Struct)
		if !ok {
			return
		}
		t.recvT = n.Obj().Name()
		self, have := env.vars["self"]
		if !have {
			return
		}
		t.recvVal = self
		// the receiver is built as a zero value with its plain fields set from the model: admissible only when the
		// symbolic execution touched no other field (a field heap or embedded-object function of a non-plain field that
		// was never declared was never read or written)
		for i := 0; i < s.NumFields(); i++ {
			f := s.Field(i)
			k, _, ok := rpKind(f.Type(), pkg)
			if ok && k != "bytes" && !f.Embedded() && t.recvPtr {
				continue
			}
			_, d1 := u.decls.m[smtName(fieldHeap(n, f.Name()))+"!0"]
			_, d2 := u.decls.m[smtName("sub$"+typeKey(n)+"."+f.Name())]
			_, d3 := u.decls.m[smtName(fieldHeap(n, f.Name()))+".arr!0"]
			if d1 || d2 || d3 {
				return
			}
		}
		if t.recvPtr {
			for i := 0; i < s.NumFields(); i++ {
				f := s.Field(i)
				k, g, ok := rpKind(f.Type(), pkg)
				if !ok || k == "bytes" || f.Embedded() {
					continue
				}
				hn := smtName(fieldHeap(n, f.Name())) + "!0"
				if _, declared := u.decls.m[hn]; !declared {
					continue // never read: the zero value is as good as any
				}
				t.fields = append(t.fields, rpVar{Name: f.Name(), Kind: k, GoT: g, Field: true, Val: scalar(tSel(hn, self.S), sortOf(f.Type()), f.Type())})
			}
		}
	}
	// fresh results
	ts := u.entry.fork()
	penv := &specEnv{u: u, st: ts, old: u.entry, vars: map[string]Val{}, pkg: pkg, where: c.Where}
	for k, v := range env.vars {
		penv.vars[k] = v
	}
	// stream parameters: their ghosts before the call, the modifies clauses applied, their ghosts after it
	specTerm := func(e *specEnv, text string) Term {
		x, err := parseSpecExpr(text)
		if err != nil {
			return ""
		}
		v, err := u.specVal(e, Clause{Text: text, Expr: x, Where: c.Where})
		if err != nil {
			return ""
		}
		return v.S
	}
	streams := map[string]int{}
	for i, p := range t.params {
		if p.Kind == "stream" {
			streams[p.Name] = i
		}
	}
	for _, m := range c.Modifies {
		mm := reStreamMod.FindStringSubmatch(strings.ReplaceAll(m.Text, " ", ""))
		if _, ok := streams[mm[2]]; !ok {
			return
		}
	}
	eenv := &specEnv{u: u, st: u.entry, old: u.entry, vars: penv.vars, pkg: pkg, where: c.Where}
	for _, i := range streams {
		p := &t.params[i]
		p.pre, p.post = map[string]Term{}, map[string]Term{}
		for _, g := range []string{"rpos", "rend", "rfail", "rdone", "wpos", "wfail", "rdata", "wdata"} {
			p.pre[g] = specTerm(eenv, g+"("+p.Name+")")
			if p.pre[g] == "" {
				return
			}
		}
	}
	for _, m := range c.Modifies {
		if err := u.havocTarget(ts, penv, m); err != nil {
			return
		}
	}
	for _, i := range streams {
		p := &t.params[i]
		for _, g := range []string{"rpos", "rend", "rfail", "rdone", "wpos", "wfail", "rdata", "wdata"} {
			p.post[g] = specTerm(penv, g+"("+p.Name+")")
			if p.post[g] == "" {
				return
			}
		}
	}
	var rvals []Val
	for i := 0; i < u.sig.Results().Len(); i++ {
		rT := u.sig.Results().At(i).Type()
		k, g, ok := rpKind(rT, pkg)
		if !ok {
			g = ""
			switch rT.Underlying().(type) {
			case *types.Pointer, *types.Map, *types.Chan, *types.Signature:
				k = "ref"
				if pt, isP := rT.Underlying().(*types.Pointer); isP {
					if n, isN := types.Unalias(pt.Elem()).(*types.Named); isN && n.Obj().Pkg() == pkg {
						if st, isS := n.Underlying().(*types.Struct); isS {
							k = "struct"
							_ = st
						}
					}
				}
			case *types.Interface:
				k = "ref"
				if isNamed(rT, "", "error") {
					k = "error"
				}
			default:
				return
			}
		}
		v := u.freshVal(fmt.Sprintf("replay.r%d", i), rT)
		ts.assume(u.typeAssume(v))
		rvals = append(rvals, v)
		rv := rpVar{Name: fmt.Sprintf("r%d", i), Kind: k, GoT: g, Val: v}
		if k == "struct" {
			n := types.Unalias(rT.Underlying().(*types.Pointer).Elem()).(*types.Named)
			sT := n.Underlying().(*types.Struct)
			for fi := 0; fi < sT.NumFields(); fi++ {
				f := sT.Field(fi)
				fk, fg, ok := rpKind(f.Type(), pkg)
				if !ok || fk == "bytes" || f.Embedded() {
					continue
				}
				rv.sub = append(rv.sub, rpVar{Name: f.Name(), Kind: fk, GoT: fg, Val: u.fieldRead(ts, n, f, v.S)})
			}
		}
		t.results = append(t.results, rv)
	}
	res := Val{Kind: KTuple, Elems: rvals}
	if len(rvals) == 1 {
		res = rvals[0]
	}
	u.bindResults(penv, c, u.sig, res)
	okAll := true
	func() {
		defer func() {
			if r := recover(); r != nil {
				okAll = false
			}
		}()
		for i, en := range c.Ensures {
			f, err := u.specBool(penv, en)
			if err != nil {
				continue
			}
			parts := splitGoal(f)
			for pi, pt := range parts {
				lbl := fmt.Sprint(i + 1)
				if len(parts) > 1 {
					lbl = fmt.Sprintf("%d.%d", i+1, pi+1)
				}
				t.posts[lbl] = pt
			}
		}
	}()
	if !okAll {
		return
	}
	t.pc = ts.pc[:len(ts.pc):len(ts.pc)]
	u.replay = t
}

// groundInstances: for a hypothesis (forall ((i Int)) body) the instances body[i := 0], ..., body[i := upto]. The model
// search without quantified hypotheses would otherwise know nothing of what, say, io.ReadFull's contract says about
// the bytes it delivered ("buf[i] == rdata(r)[pos+i] for all i").
func groundInstances(t Term, upto int) []Term {
	n := parseSx(t)
	if n == nil || len(n.kids) != 3 || n.kids[0].atom != "forall" || len(n.kids[1].kids) != 1 {
		return nil
	}
	b := n.kids[1].kids[0]
	if len(b.kids) != 2 || b.kids[1].atom != "Int" {
		return nil
	}
	v := b.kids[0].atom
	body := n.kids[2]
	if len(body.kids) >= 2 && body.kids[0].atom == "!" {
		body = body.kids[1]
	}
	if hasQuantifier(body.String()) {
		return nil
	}
	var subst func(x *sx, c string) *sx
	subst = func(x *sx, c string) *sx {
		if x.kids == nil {
			if x.atom == v {
				return &sx{atom: c}
			}
			return x
		}
		y := &sx{}
		for _, k := range x.kids {
			y.kids = append(y.kids, subst(k, c))
		}
		return y
	}
	var out []Term
	for c := 0; c <= upto; c++ {
		out = append(out, subst(body, fmt.Sprint(c)).String())
	}
	return out
}

func hasQuantifier(t Term) bool {
	return strings.Contains(t, "(forall ") || strings.Contains(t, "(exists ")
}

// solveModel runs z3-new (then z3, cvc5) on text and returns the get-value pairs of a sat answer.
func solveModel(text string, secs int) (map[string]string, string) {
	dir, err := os.MkdirTemp("", "gocv-replay")
	if err != nil {
		return nil, "error"
	}
	defer os.RemoveAll(dir)
	f := filepath.Join(dir, "q.smt2")
	os.WriteFile(f, []byte(text), 0o644)
	if d := os.Getenv("GOCV_REPLAY_DEBUG"); d != "" {
		os.MkdirAll(d, 0o755)
		es, _ := os.ReadDir(d)
		os.WriteFile(filepath.Join(d, fmt.Sprintf("q%03d.smt2", len(es))), []byte(text), 0o644)
	}
	last := "unknown"
	use := solvers
	if secs < 0 {
		// judgement queries: one solver, short budget (there may be dozens of clauses)
		secs = -secs
		use = solvers[:1]
	}
	for _, sr := range use {
		if !replayTimeLeft() {
			return nil, "timeout"
		}
		res, out, _ := runSolver(sr, f, time.Duration(secs)*time.Second)
		last = res
		if res == "unsat" {
			return nil, res
		}
		if res != "sat" {
			continue
		}
		i := strings.Index(out, "sat")
		body := strings.TrimSpace(out[i+3:])
		root := parseSx(body)
		vals := map[string]string{}
		if root != nil {
			for _, k := range root.kids {
				if len(k.kids) == 2 {
					vals[k.kids[0].String()] = k.kids[1].String()
				}
			}
		}
		return vals, "sat"
	}
	return nil, last
}

func modelInt(s string) (int64, bool) {
	s = strings.TrimSpace(s)
	if n, ok := isIntLit(s); ok {
		return n, true
	}
	// (- 5) with inner spacing variations
	x := parseSx(s)
	if x != nil && len(x.kids) == 2 && x.kids[0].atom == "-" {
		if n, err := strconv.ParseInt(x.kids[1].atom, 10, 64); err == nil {
			return -n, true
		}
	}
	if n, err := strconv.ParseUint(s, 10, 64); err == nil {
		return int64(n), true
	}
	return 0, false
}

type rpConcrete struct {
	Int   int64
	UInt  uint64
	Bool  bool
	Bytes []byte // string or byte slice content
}

// tryReplay: see the comment at the top of this file. Returns (confirmed, record for the replay file).
// replayDeadline bounds the time one check spends on replays (model searches, test runs, judgements).
var replayDeadline time.Time

func replayTimeLeft() bool {
	if replayDeadline.IsZero() {
		replayDeadline = time.Now().Add(3 * time.Minute)
	}
	return time.Now().Before(replayDeadline)
}

func tryReplay(u *Unit, prop, name string, o *Obligation, replayDir string) (bool, map[string]any) {
	if !replayTimeLeft() {
		return false, map[string]any{"function": u.name, "model_search": "skipped: this run's time budget for replays (3 min) is used up"}
	}
	// first with every hypothesis (the solvers sometimes do find a model in spite of the quantifiers), then without the
	// quantified ones
	ok, info := tryReplayMode(u, prop, name, o, replayDir, true)
	if ok || info == nil {
		return ok, info
	}
	ok2, info2 := tryReplayMode(u, prop, name, o, replayDir, false)
	if info2 != nil {
		info2["first_attempt_with_all_hypotheses"] = map[string]any{"inputs": info["inputs"], "verdict": info["verdict"], "model_search": info["model_search"]}
		return ok2, info2
	}
	return ok, info
}

func tryReplayMode(u *Unit, prop, name string, o *Obligation, replayDir string, keepQ bool) (bool, map[string]any) {
	t := u.replay
	if t == nil {
		return false, nil
	}
	info := map[string]any{"function": u.name}
	post := ""
	postLbl := ""
	if o.Kind == "post" {
		postLbl = name[strings.LastIndex(name, "#post:")+6:]
		post = t.posts[postLbl]
		if post == "" {
			return false, nil
		}
	}
	// any other kind (loop invariant, call precondition, no-panic condition ...): the failed query still yields a
	// candidate input; the run is judged against every postcondition clause of the function (and against panicking)
	elemHeap := "E$uint8!0"
	for _, v := range append(append([]rpVar{}, t.params...), t.results...) {
		if v.Kind == "bytes" && v.Val.T != nil {
			hn, _ := u.elemHeapName(v.Val.T.Underlying().(*types.Slice).Elem())
			elemHeap = smtName(hn) + "!0"
			break
		}
	}
	_, haveElems := u.decls.m[elemHeap]
	const maxLen = 64
	// ---- A: model search ----
	var base strings.Builder
	base.WriteString("(set-option :produce-models true)\n(set-logic ALL)\n")
	base.WriteString(u.decls.text())
	for _, a := range u.axioms {
		if keepQ || !hasQuantifier(a) {
			base.WriteString("(assert " + a + ")\n")
		}
	}
	if d := u.strDistinctAxiom(); d != "true" {
		base.WriteString("(assert " + d + ")\n")
	}
	for _, p := range o.PC {
		if keepQ || !hasQuantifier(p) {
			base.WriteString("(assert " + p + ")\n")
		} else {
			for _, g := range groundInstances(p, maxLen) {
				base.WriteString("(assert " + g + ")\n")
			}
		}
	}
	base.WriteString("(assert (not " + o.Goal + "))\n")
	all := append(append([]rpVar{}, t.fields...), t.params...)
	var lenTerms []Term
	lenOf := func(v rpVar) Term {
		switch v.Kind {
		case "bytes":
			return v.Val.Len
		case "string":
			return tApp("slen", v.Val.S)
		case "stream":
			return tSub(v.pre["rend"], v.pre["rpos"]) // the bytes the peer will still deliver
		}
		return ""
	}
	for _, v := range all {
		if v.Name == "" {
			continue
		}
		if l := lenOf(v); l != "" {
			lenTerms = append(lenTerms, l)
			base.WriteString(fmt.Sprintf("(assert (<= %s %d))\n", l, maxLen))
			if v.Kind == "stream" {
				// the double is a fresh stream that never fails: nothing read or written yet has gone wrong
				base.WriteString(fmt.Sprintf("(assert (and (<= 0 %s) (not %s) (not %s) (not %s)))\n", l, v.pre["rfail"], v.pre["wfail"], v.pre["rdone"]))
			}
			if v.Kind == "bytes" {
				base.WriteString(fmt.Sprintf("(assert (<= %s %d))\n", v.Val.Cap, 2*maxLen))
			}
		}
	}
	q1 := base.String() + "(check-sat)\n"
	if len(lenTerms) > 0 {
		q1 += "(get-value (" + strings.Join(lenTerms, " ") + "))\n"
	}
	m1, r1 := solveModel(q1, 10)
	if r1 != "sat" {
		info["model_search"] = "no model (" + r1 + ") for the failed query" + map[bool]string{true: "", false: " without its quantified hypotheses"}[keepQ] + ", input lengths <= " + fmt.Sprint(maxLen)
		return false, info
	}
	// stage 2: lengths pinned, contents and scalars requested
	var pins strings.Builder
	var want []Term
	lens := map[string]int64{}
	for _, l := range lenTerms {
		n, ok := modelInt(m1[parseSx(l).String()])
		if !ok || n < 0 || n > maxLen {
			info["model_search"] = "model gives no usable length for " + l
			return false, info
		}
		lens[l] = n
		pins.WriteString(fmt.Sprintf("(assert (= %s %d))\n", l, n))
	}
	elemTerm := func(v rpVar, i int64) Term {
		if v.Kind == "string" {
			return tApp("sat", v.Val.S, fmt.Sprint(i))
		}
		if v.Kind == "stream" {
			return tSel(v.pre["rdata"], tAdd(v.pre["rpos"], fmt.Sprint(i)))
		}
		return tSel(tSel(elemHeap, v.Val.Arr), tAdd(v.Val.Off, fmt.Sprint(i)))
	}
	for _, v := range all {
		if v.Name == "" {
			continue
		}
		switch v.Kind {
		case "int", "uint", "bool":
			want = append(want, v.Val.S)
		case "bytes":
			want = append(want, v.Val.Arr, v.Val.Off, v.Val.Cap)
			pins.WriteString(fmt.Sprintf("(assert (not (= %s 0)))\n", v.Val.Arr)) // a real backing array, also for len 0? keep nil possible below
			fallthrough
		case "string", "stream":
			if v.Kind == "bytes" && !haveElems {
				continue
			}
			for i := int64(0); i < lens[lenOf(v)]; i++ {
				e := elemTerm(v, i)
				pins.WriteString(fmt.Sprintf("(assert (and (<= 0 %s) (<= %s 255)))\n", e, e))
				want = append(want, e)
			}
		}
	}
	var m2 map[string]string
	r2 := "sat"
	if len(want) > 0 {
		q2 := base.String() + pins.String() + "(check-sat)\n(get-value (" + strings.Join(want, " ") + "))\n"
		m2, r2 = solveModel(q2, 10)
		if r2 != "sat" {
			// retry without the non-nil pin on byte slices
			q2 = base.String() + strings.ReplaceAll(pins.String(), "(assert (not (= ", "(assert (or true (= ") + "(check-sat)\n(get-value (" + strings.Join(want, " ") + "))\n"
			q2 = strings.ReplaceAll(q2, " 0)))\n(assert (and", " 0))\n(assert (and")
			m2, r2 = nil, "unknown"
		}
	}
	if r2 != "sat" {
		info["model_search"] = "no model (" + r2 + ") once the input lengths are fixed"
		return false, info
	}
	get := func(tm Term) string { return m2[parseSx(tm).String()] }
	conc := map[string]rpConcrete{}
	inputsOut := map[string]any{}
	var concPins []Term // the concrete inputs as SMT facts (for the judgement)
	for _, v := range all {
		if v.Name == "" {
			continue
		}
		key := v.Name
		if v.Field {
			key = "recv." + v.Name
		}
		switch v.Kind {
		case "int", "uint":
			n, ok := modelInt(get(v.Val.S))
			if !ok {
				// values above MaxInt64 for uint64
				if un, err := strconv.ParseUint(strings.TrimSpace(get(v.Val.S)), 10, 64); err == nil {
					conc[key] = rpConcrete{UInt: un, Int: int64(un)}
					inputsOut[key] = un
					concPins = append(concPins, tEq(v.Val.S, fmt.Sprint(un)))
					continue
				}
				info["model_search"] = "model gives no value for " + key
				return false, info
			}
			conc[key] = rpConcrete{Int: n, UInt: uint64(n)}
			inputsOut[key] = n
			concPins = append(concPins, tEq(v.Val.S, tInt(n)))
		case "bool":
			b := strings.TrimSpace(get(v.Val.S)) == "true"
			conc[key] = rpConcrete{Bool: b}
			inputsOut[key] = b
			if b {
				concPins = append(concPins, v.Val.S)
			} else {
				concPins = append(concPins, tNot(v.Val.S))
			}
		case "bytes", "string", "stream":
			n := lens[lenOf(v)]
			bs := make([]byte, n)
			concPins = append(concPins, tEq(lenOf(v), fmt.Sprint(n)))
			if v.Kind == "stream" {
				concPins = append(concPins, tNot(v.pre["rfail"]), tNot(v.pre["wfail"]), tNot(v.pre["rdone"]))
			}
			for i := int64(0); i < n; i++ {
				if v.Kind == "bytes" && !haveElems {
					break
				}
				x, ok := modelInt(get(elemTerm(v, i)))
				if !ok || x < 0 || x > 255 {
					x = 0
				}
				bs[i] = byte(x)
				concPins = append(concPins, tEq(elemTerm(v, i), fmt.Sprint(x)))
			}
			conc[key] = rpConcrete{Bytes: bs}
			inputsOut[key] = hex.EncodeToString(bs)
			if v.Kind == "bytes" {
				concPins = append(concPins, tNot(tEq(v.Val.Arr, "0")), tLe(v.Val.Len, v.Val.Cap))
			}
		}
	}
	info["inputs"] = inputsOut
	hasStream := false
	for _, p := range t.params {
		if p.Kind == "stream" {
			hasStream = true
		}
	}
	attempt := func(chunk int, info map[string]any) (bool, map[string]any) {
		// ---- B: run the real code ----
		src := t.testSource(conc, chunk)
		os.MkdirAll(replayDir, 0o755)
		testPath := filepath.Join(replayDir, smtName(strings.ReplaceAll(name, "#", "__"))+"_replay_test.go.txt")
		os.WriteFile(testPath, []byte(src), 0o644)
		info["test"] = testPath
		info["pkg_dir"] = t.pkgDir
		info["run"] = "./check --replay <this file>   (go test -overlay: the test is injected into " + t.pkgDir + ", nothing is written to /repo)"
		out, err := runReplayTest(t.pkgDir, src)
		if err != nil {
			info["run_error"] = err.Error() + "\n" + tailLines(out, 15)
			return false, info
		}
		var obs map[string]any
		if err := json.Unmarshal([]byte(out), &obs); err != nil {
			info["run_error"] = "unreadable output: " + out
			return false, info
		}
		info["observed"] = obs
		// ---- C: judge ----
		if p, panicked := obs["panic"]; panicked {
			want := map[string]string{"bounds": "out of range", "nil": "nil pointer", "nilcheck": "nil pointer", "div": "divide by zero", "mapnil": "nil map"}[o.Kind]
			if o.Kind != "post" && want != "" && !strings.Contains(fmt.Sprint(p), want) {
				info["verdict"] = fmt.Sprintf("not judged: the real function panics on this input (%v), which is not the kind of failure the obligation is about", p)
				return false, info
			}
			if o.Kind != "post" {
				info["verdict"] = fmt.Sprintf("confirmed: the real function panics on this input (%v)", p)
				return true, info
			}
			info["verdict"] = fmt.Sprintf("the real function panics on this input (%v); the failed obligation is a postcondition, which a panic neither meets nor refutes", p)
			return false, info
		}
		for _, v := range t.params {
			if v.Kind == "bytes" && v.Name != "" {
				if un, _ := obs["unchanged_"+v.Name].(bool); !un {
					info["verdict"] = "not judged: the function changed its input slice " + v.Name + " (the judgement step assumes inputs are left as they were)"
					return false, info
				}
			}
		}
		if un, present := obs["unchanged_recv"].(bool); present && !un {
			info["verdict"] = "not judged: the function changed its receiver (the judgement step assumes a function that changes nothing)"
			return false, info
		}
		var resPins []Term
		for _, p := range t.params {
			if p.Kind != "stream" {
				continue
			}
			so, ok := obs["stream_"+p.Name].(map[string]any)
			if !ok {
				info["verdict"] = "not judged: stream observations missing in the run's output"
				return false, info
			}
			consumed, _ := so["consumed"].(float64)
			whex, _ := so["written"].(string)
			wbytes, _ := hex.DecodeString(whex)
			sawEnd, _ := so["saw_end"].(bool)
			resPins = append(resPins, tEq(p.post["rpos"], tAdd(p.pre["rpos"], fmt.Sprint(int64(consumed)))))
			resPins = append(resPins, tEq(p.post["wpos"], tAdd(p.pre["wpos"], fmt.Sprint(len(wbytes)))))
			for k, b := range wbytes {
				resPins = append(resPins, tEq(tSel(p.post["wdata"], tAdd(p.pre["wpos"], fmt.Sprint(k))), fmt.Sprint(b)))
			}
			resPins = append(resPins, tNot(p.post["rfail"]), tNot(p.post["wfail"]))
			if p.post["rdone"] != p.pre["rdone"] { // only when the contract lets the function change it
				if sawEnd {
					resPins = append(resPins, p.post["rdone"])
				} else {
					resPins = append(resPins, tNot(p.post["rdone"]))
				}
			}
		}
		for i, r := range t.results {
			ov, ok := obs[fmt.Sprintf("r%d", i)].(map[string]any)
			if !ok {
				info["verdict"] = "not judged: result missing in the run's output"
				return false, info
			}
			switch r.Kind {
			case "int", "uint":
				s, _ := ov["v"].(string)
				if strings.HasPrefix(s, "-") {
					resPins = append(resPins, tEq(r.Val.S, "(- "+s[1:]+")"))
				} else {
					resPins = append(resPins, tEq(r.Val.S, s))
				}
			case "bool":
				if b, _ := ov["v"].(bool); b {
					resPins = append(resPins, r.Val.S)
				} else {
					resPins = append(resPins, tNot(r.Val.S))
				}
			case "string":
				hx, _ := ov["hex"].(string)
				bs, _ := hex.DecodeString(hx)
				resPins = append(resPins, tEq(tApp("slen", r.Val.S), fmt.Sprint(len(bs))))
				for k, b := range bs {
					resPins = append(resPins, tEq(tApp("sat", r.Val.S, fmt.Sprint(k)), fmt.Sprint(b)))
				}
			case "bytes":
				hx, _ := ov["hex"].(string)
				bs, _ := hex.DecodeString(hx)
				isNil, _ := ov["nil"].(bool)
				capv, _ := ov["cap"].(float64)
				resPins = append(resPins, tEq(r.Val.Len, fmt.Sprint(len(bs))), tEq(r.Val.Cap, fmt.Sprint(int64(capv))))
				if isNil {
					resPins = append(resPins, tEq(r.Val.Arr, "0"), tEq(r.Val.Off, "0"))
					break
				}
				alias, _ := ov["alias"].(string)
				aoff, _ := ov["alias_off"].(float64)
				done := false
				for _, p := range t.params {
					if p.Kind == "bytes" && p.Name == alias && alias != "" {
						resPins = append(resPins, tEq(r.Val.Arr, p.Val.Arr), tEq(r.Val.Off, tAdd(p.Val.Off, fmt.Sprint(int64(aoff)))))
						done = true
					}
				}
				if !done {
					resPins = append(resPins, tNot(tEq(r.Val.Arr, "0")))
					for _, p := range t.params {
						if p.Kind == "bytes" && p.Name != "" {
							resPins = append(resPins, tNot(tEq(r.Val.Arr, p.Val.Arr)))
						}
					}
					if haveElems {
						for k, b := range bs {
							resPins = append(resPins, tEq(tSel(tSel(elemHeap, r.Val.Arr), tAdd(r.Val.Off, fmt.Sprint(k))), fmt.Sprint(b)))
						}
					}
				}
			case "struct":
				if isNil, _ := ov["nil"].(bool); isNil {
					resPins = append(resPins, tEq(r.Val.S, "0"))
					break
				}
				resPins = append(resPins, tNot(tEq(r.Val.S, "0")))
				fs, _ := ov["fields"].(map[string]any)
				for _, f := range r.sub {
					fo, ok := fs[f.Name].(map[string]any)
					if !ok {
						continue
					}
					switch f.Kind {
					case "int", "uint":
						sv, _ := fo["v"].(string)
						if strings.HasPrefix(sv, "-") {
							sv = "(- " + sv[1:] + ")"
						}
						resPins = append(resPins, tEq(f.Val.S, sv))
					case "bool":
						if bv, _ := fo["v"].(bool); bv {
							resPins = append(resPins, f.Val.S)
						} else {
							resPins = append(resPins, tNot(f.Val.S))
						}
					case "string":
						hx, _ := fo["hex"].(string)
						bs, _ := hex.DecodeString(hx)
						resPins = append(resPins, tEq(tApp("slen", f.Val.S), fmt.Sprint(len(bs))))
						for k, b := range bs {
							resPins = append(resPins, tEq(tApp("sat", f.Val.S, fmt.Sprint(k)), fmt.Sprint(b)))
						}
					}
				}
			case "error", "ref":
				if isNil, _ := ov["nil"].(bool); isNil {
					resPins = append(resPins, tEq(r.Val.S, "0"))
				} else {
					resPins = append(resPins, tNot(tEq(r.Val.S, "0")))
				}
			}
		}
		// the judgement query: every hypothesis of the entry state, the concrete inputs, the observed outputs. It is built
		// twice: in full, and without the quantified hypotheses (for the consistency check only)
		build := func(full bool) string {
			var jb strings.Builder
			jb.WriteString("(set-logic ALL)\n")
			jb.WriteString(u.decls.text())
			for _, a := range u.axioms {
				if full || !hasQuantifier(a) {
					jb.WriteString("(assert " + a + ")\n")
				}
			}
			if d := u.strDistinctAxiom(); d != "true" {
				jb.WriteString("(assert " + d + ")\n")
			}
			for _, p := range t.pc {
				if full || !hasQuantifier(p) {
					jb.WriteString("(assert " + p + ")\n")
				}
			}
			for _, p := range concPins {
				jb.WriteString("(assert " + p + ")\n")
			}
			for _, p := range resPins {
				jb.WriteString("(assert " + p + ")\n")
			}
			return jb.String()
		}
		// consistency first: the inputs and outputs of a real run must be a possible state of the contract's world,
		// otherwise "unsat" below would say nothing about the clause
		_, sane := solveModel(build(true)+"(check-sat)\n", 5)
		if sane != "sat" && sane != "unsat" {
			_, sane = solveModel(build(false)+"(check-sat)\n", 5)
			if sane == "sat" {
				sane = "sat (ground part; the quantified hypotheses left the full query undecided)"
			}
		}
		info["consistency"] = "inputs and observed outputs together with the entry hypotheses: " + sane
		if !strings.HasPrefix(sane, "sat") {
			info["verdict"] = "not judged: the concrete inputs and outputs are not shown consistent with the function's preconditions and type facts (" + sane + ")"
			return false, info
		}
		var order []string
		if postLbl != "" {
			order = append(order, postLbl)
		}
		for _, l := range sortedKeys(t.posts) {
			if l != postLbl {
				order = append(order, l)
			}
		}
		words := map[string]string{"unsat": "cannot hold", "sat": "holds", "unknown": "undecided", "timeout": "undecided", "error": "solver error"}
		judged := map[string]string{}
		for li, l := range order {
			if li >= 16 {
				break // the clause that failed comes first; a bounded number of the others
			}
			_, jr := solveModel(build(true)+"(assert "+t.posts[l]+")\n(check-sat)\n", -4)
			judged["post:"+l] = words[jr]
			if jr == "unsat" {
				info["judgement"] = judged
				info["refuted_clause"] = u.name + "#post:" + l
				info["verdict"] = "confirmed: on this input the real function returns values that postcondition clause " + l + " excludes (clause instantiated on the concrete inputs and the observed outputs, all hypotheses present: cannot hold)"
				return true, info
			}
		}
		info["judgement"] = judged
		info["verdict"] = "not reproduced: the real function's answer on the candidate input contradicts no postcondition clause (the candidate came from a weakened query)"
		return false, info
	}
	ok, info1 := attempt(0, info)
	if ok || !hasStream {
		return ok, info1
	}
	// the same input once more, delivered one byte per Read (framing code that assumes whole reads shows here)
	info2 := map[string]any{"function": u.name, "inputs": info["inputs"], "delivery": "one byte per Read"}
	ok2, info2 := attempt(1, info2)
	if ok2 {
		info2["first_run_whole_reads"] = map[string]any{"verdict": info1["verdict"]}
		return true, info2
	}
	info1["second_run_one_byte_reads"] = map[string]any{"verdict": info2["verdict"], "observed": info2["observed"]}
	return false, info1
}

func tailLines(s string, n int) string {
	ls := strings.Split(strings.TrimRight(s, "\n"), "\n")
	if len(ls) > n {
		ls = ls[len(ls)-n:]
	}
	return strings.Join(ls, "\n")
}

func goBytesLit(b []byte) string {
	var sb strings.Builder
	sb.WriteString("[]byte{")
	for i, x := range b {
		if i > 0 {
			sb.WriteString(", ")
		}
		fmt.Fprintf(&sb, "0x%02x", x)
	}
	sb.WriteString("}")
	return sb.String()
}

// testSource renders the in-package test that calls the function with the concrete inputs and prints what it observed.
func (t *replayTpl) testSource(conc map[string]rpConcrete, chunk int) string {
	var b strings.Builder
	fmt.Fprintf(&b, "package %s\n\n", t.pkgName)
	b.WriteString("// Generated by /verif/gocv (replay of a solver model against the real code). Injected with go test -overlay.\n\n")
	b.WriteString("import (\n\t\"encoding/hex\"\n\t\"encoding/json\"\n\t\"fmt\"\n\tgocvio \"io\"\n\tgocvnet \"net\"\n\t\"testing\"\n\tgocvtime \"time\"\n\t\"unsafe\"\n)\n\n")
	b.WriteString("var gocvEOF = gocvio.EOF\n\ntype gocvNetAddr = gocvnet.Addr\ntype gocvTime = gocvtime.Time\n\n")
	b.WriteString("var _ = hex.EncodeToString\nvar _ = unsafe.Pointer(nil)\n\n")
	hasStream := false
	for _, p := range t.params {
		if p.Kind == "stream" {
			hasStream = true
		}
	}
	if hasStream {
		// the double: a peer that delivers `in` (at most `chunk` bytes per Read when chunk > 0), then end of stream; it
		// accepts every write
		b.WriteString(gocvStreamSrc)
	}
	b.WriteString("func TestGocvReplay(t *testing.T) {\n\tobs := map[string]any{}\n")
	lit := func(v rpVar, key string) string {
		c := conc[key]
		switch v.Kind {
		case "int":
			return fmt.Sprintf("%s(%d)", v.GoT, c.Int)
		case "uint":
			return fmt.Sprintf("%s(%d)", v.GoT, c.UInt)
		case "bool":
			return fmt.Sprintf("%s(%v)", v.GoT, c.Bool)
		case "string":
			return fmt.Sprintf("%s(%s)", v.GoT, goBytesLit(c.Bytes))
		case "bytes":
			return goBytesLit(c.Bytes)
		}
		return "nil"
	}
	var args []string
	for i, p := range t.params {
		if p.Name == "" {
			zero := map[string]string{"int": "0", "uint": "0", "bool": "false", "string": "\"\"", "bytes": "nil"}[p.Kind]
			args = append(args, zero)
			continue
		}
		vn := fmt.Sprintf("in%d", i)
		if p.Kind == "stream" {
			fmt.Fprintf(&b, "\t%s := &gocvStream{in: %s, chunk: %d} // %s\n", vn, goBytesLit(conc[p.Name].Bytes), chunk, p.Name)
			args = append(args, vn)
			continue
		}
		fmt.Fprintf(&b, "\t%s := %s // %s\n", vn, lit(p, p.Name), p.Name)
		if p.Kind == "bytes" {
			fmt.Fprintf(&b, "\t%s_before := append([]byte(nil), %s...)\n", vn, vn)
		}
		args = append(args, vn)
	}
	call := t.fn + "(" + strings.Join(args, ", ") + ")"
	if t.recvT != "" {
		if t.recvPtr {
			fmt.Fprintf(&b, "\trecv := new(%s)\n", t.recvT)
		} else {
			fmt.Fprintf(&b, "\tvar recv %s\n", t.recvT)
		}
		for _, f := range t.fields {
			fmt.Fprintf(&b, "\trecv.%s = %s\n", f.Name, lit(f, "recv."+f.Name))
		}
		for _, f := range t.fields {
			fmt.Fprintf(&b, "\tbefore_%s := recv.%s\n", f.Name, f.Name)
		}
		call = "recv." + call
	}
	b.WriteString("\tfunc() {\n\t\tdefer func() {\n\t\t\tif r := recover(); r != nil {\n\t\t\t\tobs[\"panic\"] = fmt.Sprint(r)\n\t\t\t}\n\t\t}()\n")
	var rs []string
	for i := range t.results {
		rs = append(rs, fmt.Sprintf("r%d", i))
	}
	if len(rs) > 0 {
		fmt.Fprintf(&b, "\t\t%s := %s\n", strings.Join(rs, ", "), call)
	} else {
		fmt.Fprintf(&b, "\t\t%s\n", call)
	}
	for i, r := range t.results {
		n := fmt.Sprintf("r%d", i)
		switch r.Kind {
		case "int":
			fmt.Fprintf(&b, "\t\tobs[%q] = map[string]any{\"v\": fmt.Sprint(int64(%s))}\n", n, n)
		case "uint":
			fmt.Fprintf(&b, "\t\tobs[%q] = map[string]any{\"v\": fmt.Sprint(uint64(%s))}\n", n, n)
		case "bool":
			fmt.Fprintf(&b, "\t\tobs[%q] = map[string]any{\"v\": bool(%s)}\n", n, n)
		case "string":
			fmt.Fprintf(&b, "\t\tobs[%q] = map[string]any{\"hex\": hex.EncodeToString([]byte(string(%s))), \"text\": fmt.Sprintf(\"%%q\", string(%s))}\n", n, n, n)
		case "bytes":
			fmt.Fprintf(&b, "\t\t{\n\t\t\to := map[string]any{\"hex\": hex.EncodeToString(%s), \"nil\": %s == nil, \"cap\": cap(%s)}\n", n, n, n)
			for j, p := range t.params {
				if p.Kind == "bytes" && p.Name != "" {
					in := fmt.Sprintf("in%d", j)
					fmt.Fprintf(&b, "\t\t\tif %s != nil && cap(%s) > 0 {\n\t\t\t\tlo := uintptr(unsafe.Pointer(unsafe.SliceData(%s)))\n\t\t\t\tp := uintptr(unsafe.Pointer(unsafe.SliceData(%s)))\n\t\t\t\tif p >= lo && p <= lo+uintptr(cap(%s)) {\n\t\t\t\t\to[\"alias\"] = %q\n\t\t\t\t\to[\"alias_off\"] = int(p - lo)\n\t\t\t\t}\n\t\t\t}\n", n, in, in, n, in, p.Name)
				}
			}
			fmt.Fprintf(&b, "\t\t\tobs[%q] = o\n\t\t}\n", n)
		case "error":
			fmt.Fprintf(&b, "\t\tif %s == nil {\n\t\t\tobs[%q] = map[string]any{\"nil\": true}\n\t\t} else {\n\t\t\tobs[%q] = map[string]any{\"nil\": false, \"text\": %s.Error()}\n\t\t}\n", n, n, n, n)
		case "ref":
			fmt.Fprintf(&b, "\t\tobs[%q] = map[string]any{\"nil\": %s == nil}\n", n, n)
		case "struct":
			fmt.Fprintf(&b, "\t\tif %s == nil {\n\t\t\tobs[%q] = map[string]any{\"nil\": true}\n\t\t} else {\n\t\t\tf := map[string]any{}\n", n, n)
			for _, f := range r.sub {
				switch f.Kind {
				case "int":
					fmt.Fprintf(&b, "\t\t\tf[%q] = map[string]any{\"v\": fmt.Sprint(int64(%s.%s))}\n", f.Name, n, f.Name)
				case "uint":
					fmt.Fprintf(&b, "\t\t\tf[%q] = map[string]any{\"v\": fmt.Sprint(uint64(%s.%s))}\n", f.Name, n, f.Name)
				case "bool":
					fmt.Fprintf(&b, "\t\t\tf[%q] = map[string]any{\"v\": bool(%s.%s)}\n", f.Name, n, f.Name)
				case "string":
					fmt.Fprintf(&b, "\t\t\tf[%q] = map[string]any{\"hex\": hex.EncodeToString([]byte(string(%s.%s)))}\n", f.Name, n, f.Name)
				}
			}
			fmt.Fprintf(&b, "\t\t\tobs[%q] = map[string]any{\"nil\": false, \"fields\": f}\n\t\t}\n", n)
		}
	}
	b.WriteString("\t}()\n")
	for i, p := range t.params {
		if p.Kind == "stream" {
			fmt.Fprintf(&b, "\tobs[\"stream_%s\"] = map[string]any{\"consumed\": in%d.pos, \"written\": hex.EncodeToString(in%d.out), \"saw_end\": in%d.eof}\n", p.Name, i, i, i)
		}
	}
	for i, p := range t.params {
		if p.Kind == "bytes" && p.Name != "" {
			fmt.Fprintf(&b, "\tobs[\"unchanged_%s\"] = string(in%d) == string(in%d_before)\n", p.Name, i, i)
		}
	}
	if t.recvT != "" {
		conds := []string{"true"}
		for _, f := range t.fields {
			conds = append(conds, fmt.Sprintf("before_%s == recv.%s", f.Name, f.Name))
		}
		fmt.Fprintf(&b, "\tobs[\"unchanged_recv\"] = %s\n", strings.Join(conds, " && "))
	}
	b.WriteString("\tout, _ := json.Marshal(obs)\n\tfmt.Println(\"GOCV-REPLAY \" + string(out))\n}\n")
	return b.String()
}

// runReplayTest injects src as a test file of the package in dir (overlay) and returns the JSON the test printed.
func runReplayTest(dir, src string) (string, error) {
	tmp, err := os.MkdirTemp("", "gocv-replay-run")
	if err != nil {
		return "", err
	}
	defer os.RemoveAll(tmp)
	tf := filepath.Join(tmp, "zz_gocv_replay_test.go")
	os.WriteFile(tf, []byte(src), 0o644)
	ov, _ := json.Marshal(map[string]any{"Replace": map[string]string{filepath.Join(dir, "zz_gocv_replay_test.go"): tf}})
	ovf := filepath.Join(tmp, "ov.json")
	os.WriteFile(ovf, ov, 0o644)
	ctx, cancel := context.WithTimeout(context.Background(), 180*time.Second)
	defer cancel()
	cmd := exec.CommandContext(ctx, "go", "test", "-overlay", ovf, "-vet=off", "-count=1", "-timeout", "60s", "-run", "^TestGocvReplay$", "-v", ".")
	cmd.Dir = dir
	cmd.Env = append(os.Environ(), "GOFLAGS=-mod=mod", "GOPROXY=off")
	var out bytes.Buffer
	cmd.Stdout = &out
	cmd.Stderr = &out
	runErr := cmd.Run()
	for _, l := range strings.Split(out.String(), "\n") {
		if i := strings.Index(l, "GOCV-REPLAY "); i >= 0 {
			return strings.TrimSpace(l[i+len("GOCV-REPLAY "):]), nil
		}
	}
	if runErr == nil {
		runErr = fmt.Errorf("the replay test printed nothing")
	}
	return out.String(), runErr
}

var _ = sort.Strings

const gocvStreamSrc = `type gocvStream struct {
	in    []byte
	pos   int
	chunk int
	out   []byte
	eof   bool
}

type gocvAddr struct{}

func (gocvAddr) Network() string { return "gocv" }
func (gocvAddr) String() string  { return "gocv" }

func (s *gocvStream) Read(p []byte) (int, error) {
	if len(p) == 0 {
		return 0, nil
	}
	if s.pos >= len(s.in) {
		s.eof = true
		return 0, gocvEOF
	}
	n := len(p)
	if s.chunk > 0 && n > s.chunk {
		n = s.chunk
	}
	if n > len(s.in)-s.pos {
		n = len(s.in) - s.pos
	}
	copy(p, s.in[s.pos:s.pos+n])
	s.pos += n
	return n, nil
}
func (s *gocvStream) Write(p []byte) (int, error)       { s.out = append(s.out, p...); return len(p), nil }
func (s *gocvStream) Close() error                      { return nil }
func (s *gocvStream) LocalAddr() gocvNetAddr            { return gocvAddr{} }
func (s *gocvStream) RemoteAddr() gocvNetAddr           { return gocvAddr{} }
func (s *gocvStream) SetDeadline(t gocvTime) error      { return nil }
func (s *gocvStream) SetReadDeadline(t gocvTime) error  { return nil }
func (s *gocvStream) SetWriteDeadline(t gocvTime) error { return nil }

`
