#!/usr/bin/env python3
"""Regenerates /verif/MANIFEST.json from tools/claims.json (claimed checks) and the fixed property list.
Every property that has no entry in claims.json is listed under not_applicable with its reason from
tools/not_applicable.json (or a default 'not built yet')."""
import json, subprocess, os
V = '/verif'
claims = json.load(open(f'{V}/tools/claims.json'))
na = json.load(open(f'{V}/tools/not_applicable.json'))
props = [json.loads(l) for l in open(f'{V}/properties.jsonl')]
hooks = subprocess.run(['git', '-C', '/repo', 'log', '--format=%H %s', '1006729..HEAD'], capture_output=True, text=True).stdout.strip().split('\n')
hook_commits = [l.split()[0] for l in hooks if l and not l.split(' ', 1)[1].startswith('fix:')]
m = {
 "version": 1,
 "setup_cmd": "cd /verif/gocv && GOFLAGS=-mod=mod GOPROXY=off go build -mod=vendor -o /verif/bin/gocv ./cmd/gocv",
 "hooks": {
  "guard": "verif",
  "enable": "go/packages loads /repo with -tags=verif; the tag only adds comment-only files internal/**/zz_verif_contracts.go (//go:build verif) that carry the contracts",
  "baseline_off_cmd": "cd /repo && go test -mod=mod -json -vet=off -count=1 -timeout 25m ./...",
  "source_commits": hook_commits,
  "add_only": True,
 },
 "engines": [{"name": "gocv", "path": "/verif/gocv", "serves_properties": sorted(claims.keys()),
   "kind_free_text": "contract-based deductive verifier for Go written for this task: forward symbolic execution of the real function bodies over go/ast+go/types, contracts in guarded comment files, verification conditions in SMT-LIB discharged by z3 5.1 / cvc5 1.0.3 / z3 4.8.12"}],
 "checks": [],
 "not_applicable": [],
 "notes": "See DESIGN.md. Exit codes of ./check: 0 held (KNOWN-FINDING lines possible), 1 + VIOLATION line, 3 + UNDECIDED/BROKEN-CHECK line when nothing could be decided (function under contract missing, unsupported construct, contract no longer type-checks).",
}
for p in props:
    pid = p['id']
    if pid in claims:
        c = claims[pid]
        m['checks'].append({
         "property_id": pid,
         "quick_cmd": f"./check {pid} quick",
         "thorough_cmd": f"./check {pid} thorough",
         "evidence_file": f"/verif/evidence/{pid}.json",
         "replay_cmd_template": "./check --replay {path}",
         "engine": "gocv",
         "level_claimed": {"category": "proof", "text": c['text'], "design_ref": c.get('design_ref', 'DESIGN.md section 8 ' + pid)},
         "level_note": c['note'],
         "technique": c.get('technique', 'contract-based deductive verification: pre/postconditions, loop invariants and lock invariants on the real functions; weakest-precondition style VCs generated from the typed AST; SMT (z3/cvc5)'),
        })
    else:
        m['not_applicable'].append({"property_id": pid, "reason": na.get(pid, "check not built yet (work in progress; DESIGN.md section 10 gives the order of work)")})
json.dump(m, open(f'{V}/MANIFEST.json', 'w'), indent=1)
print('checks:', [c['property_id'] for c in m['checks']])
