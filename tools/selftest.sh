#!/bin/sh
# tools/selftest.sh [PROP...] — the must-fail corpus: applies every seeded change in /verif/seeded/*/patch.diff to
# /repo in turn, runs the property's quick check, expects exit 1 with a VIOLATION line, reverts, and records the
# obligations that caught it in the seed's meta.json. /repo must be clean (contracts committed).
# mutant runs must not leave their evidence behind: the committed evidence is what tools/refresh.sh wrote on the clean tree
EVBAK=$(mktemp -d); cp -r /verif/evidence/. $EVBAK/ 2>/dev/null; trap 'cp -r $EVBAK/. /verif/evidence/ 2>/dev/null; rm -rf $EVBAK' EXIT  # ev.bak
cd /repo && git diff --quiet || { echo "/repo has uncommitted changes"; exit 2; }
cd /verif || exit 2
./check C20 quick >/dev/null 2>&1   # (re)builds bin/gocv
miss=0
for d in seeded/*/; do
  n=$(basename $d); p=${n%%-*}
  if [ $# -gt 0 ]; then case " $* " in *" $p "*) ;; *) continue;; esac; fi
  (cd /repo && git apply /verif/$d/patch.diff) || { echo "$n: patch does not apply"; miss=1; continue; }
  out=$(bin/gocv check $p quick 2>&1); rc=$?
  (cd /repo && git checkout -q -- . )
  caught=$(echo "$out" | grep "^VIOLATION" | sed 's/.*obligation=\([^ ]*\).*/\1/' | sort -u | tr '\n' ' ')
  python3 - "$d" "$rc" "$caught" <<'PY'
import json,sys
d,rc,caught=sys.argv[1:4]
m=json.load(open(d+'meta.json'))
m['check_exit']=int(rc); m['detected']=(int(rc)==1); m['caught_by']=caught.split()
json.dump(m,open(d+'meta.json','w'),indent=1,ensure_ascii=False)
PY
  if [ $rc -eq 1 ]; then echo "$n: caught by $caught" | cut -c1-200; else echo "$n: MISSED (exit $rc)"; miss=1; fi
done
exit $miss
