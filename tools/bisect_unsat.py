#!/usr/bin/env python3
"""Find a small subset of assertions that is already unsat (debug aid for vacuity failures)."""
import sys, subprocess, tempfile
lines = open(sys.argv[1]).read().split('\n')
head = [l for l in lines if not l.startswith('(assert') and not l.startswith('(check-sat') and not l.startswith('(get-')]
asserts = [l for l in lines if l.startswith('(assert')]
def unsat(sel):
    with tempfile.NamedTemporaryFile('w', suffix='.smt2', delete=False) as f:
        f.write('\n'.join(head + sel + ['(check-sat)']))
    r = subprocess.run(['z3-new', '-T:5', f.name], capture_output=True, text=True).stdout
    return r.startswith('unsat')
cur = asserts
assert unsat(cur), 'not unsat'
i = 0
while i < len(cur):
    t = cur[:i] + cur[i+1:]
    if unsat(t):
        cur = t
    else:
        i += 1
for l in cur:
    print(l[:600])
