#!/bin/sh
# tools/mut.sh <PROP> <file-relative-to-repo> <sed-expression>   — apply a one-line mutant, run the check, revert.
# (Contracts must be committed in /repo first; only the named file is reverted.)
# mutant runs must not leave their evidence behind: the committed evidence is what tools/refresh.sh wrote on the clean tree
EVBAK=$(mktemp -d); cp -r /verif/evidence/. $EVBAK/ 2>/dev/null; trap 'cp -r $EVBAK/. /verif/evidence/ 2>/dev/null; rm -rf $EVBAK' EXIT  # ev.bak
P=$1; F=$2; E=$3
cd /repo || exit 2
git diff --quiet || { echo "repo dirty"; exit 2; }
sed -i "$E" "$F"
if git diff --quiet; then echo "MUTANT DID NOT APPLY"; exit 2; fi
go build ./$(dirname $F)/ 2>&1 | head -3
cd /verif && ./check $P quick 2>&1 | cut -c1-220 | tail -4
echo "exit=$?"
cd /repo && git checkout -- "$F"
