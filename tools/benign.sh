#!/bin/sh
# tools/benign.sh — the must-pass corpus: harmless edits (renamed local, extracted helper, added logging, reordered
# independent statements) applied to /repo in turn; the property's quick check must still exit 0.
EVBAK=$(mktemp -d); cp -r /verif/evidence/. $EVBAK/ 2>/dev/null; trap 'cp -r $EVBAK/. /verif/evidence/ 2>/dev/null; rm -rf $EVBAK' EXIT
cd /repo && git diff --quiet || { echo "/repo has uncommitted changes"; exit 2; }
cd /verif && ./check C20 quick >/dev/null 2>&1
bad=0
for d in benign/*.diff; do
  n=$(basename $d .diff); p=${n%%-*}
  (cd /repo && git apply /verif/$d) || { echo "$n: patch does not apply"; bad=1; continue; }
  (cd /repo && GOFLAGS=-mod=mod GOPROXY=off go build ./... ) || { echo "$n: does not build"; bad=1; }
  out=$(bin/gocv check $p quick 2>&1); rc=$?
  (cd /repo && git checkout -q -- .)
  if [ $rc -eq 0 ]; then echo "$n: quiet (exit 0)"; else echo "$n: ALARM exit $rc"; echo "$out" | grep "VIOLATION\|UNDECIDED" | head -3 | cut -c1-200; bad=1; fi
done
exit $bad
