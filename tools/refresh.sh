#!/bin/sh
# Re-runs every claimed check on the clean /repo tree (strict vacuity), rewrites baselines and evidence.
cd /verif || exit 1
(cd /repo && git diff --quiet) || { echo "/repo has uncommitted changes"; exit 1; }
rc=0
for p in $(python3 -c "import json;print(' '.join(sorted(json.load(open('/verif/tools/claims.json')).keys())))"); do
  GOCV_WRITE_BASELINE=1 GOCV_STRICT_VACUITY=1 ./check $p quick > /tmp/refresh_$p.log 2>&1 || { rc=1; echo "FAILED $p"; grep -v "^  " /tmp/refresh_$p.log | head -5; }
  tail -1 /tmp/refresh_$p.log | cut -c1-160
done
python3 tools/manifest.py
exit $rc
