#!/bin/sh
# tools/seedtest.sh <PROP> <dir-with-patch.diff+demo_test.go+meta.json> [name]
# 1. in the scratch worktree of the patch: demo passes on the clean tree, fails with the patch; package tests pass with the patch
# 2. applies the patch to /repo, runs the check for PROP, reverts.  Copies the artefacts to /verif/seeded/<PROP>-<name>/ when confirmed.
# mutant runs must not leave their evidence behind: the committed evidence is what tools/refresh.sh wrote on the clean tree
EVBAK=$(mktemp -d); cp -r /verif/evidence/. $EVBAK/ 2>/dev/null; trap 'cp -r $EVBAK/. /verif/evidence/ 2>/dev/null; rm -rf $EVBAK' EXIT  # ev.bak
P=$1; D=$2; N=${3:-$(basename $D)}
WT=$(dirname $(dirname $D))
export GOFLAGS=-mod=mod GOPROXY=off
dest=$(head -1 $D/demo_test.go | sed 's/.*copy to: *//; s/ *$//')
[ -d "$WT/$dest" ] || { echo "bad demo destination '$dest'"; exit 2; }
cd $WT || exit 2
git checkout -q -- . 2>/dev/null; find . -name zz_verif_contracts.go -delete
cp $D/demo_test.go $WT/$dest/zz_demo_test.go
clean=$(go test -short -vet=off -count=1 -run . ./$dest 2>&1 | tail -3); echo "CLEAN: $(echo "$clean" | tail -1)"
git apply $D/patch.diff || { echo "patch does not apply"; rm -f $WT/$dest/zz_demo_test.go; exit 2; }
go build ./... || { echo "does not build"; }
mut=$(go test -short -vet=off -count=1 ./$dest 2>&1 | tail -3); echo "MUTANT(with demo): $(echo "$mut" | tail -1)"
rm -f $WT/$dest/zz_demo_test.go
pk=$(git diff --name-only | grep '\.go$' | grep -v zz_verif_contracts | xargs -n1 dirname | sort -u | sed 's|^|./|' | tr '\n' ' ')
ex=$(go test -short -vet=off -count=1 $pk 2>&1 | tail -3); echo "EXISTING TESTS ($pk): $(echo "$ex" | tail -1)"
git checkout -q -- . ; find . -name zz_verif_contracts.go -delete
# now the check
cd /repo && git diff --quiet || { echo "/repo dirty"; exit 2; }
git apply $D/patch.diff || { echo "patch does not apply to /repo"; exit 2; }
cd /verif && out=$(bin/gocv check $P quick 2>&1); rc=$?
echo "$out" | grep -v "^  " | cut -c1-230 | tail -6; echo "CHECK exit=$rc"
cd /repo && git checkout -q -- .
mkdir -p /verif/seeded/$P-$N && cp $D/patch.diff $D/demo_test.go /verif/seeded/$P-$N/ && python3 - "$D" "$P" "$N" "$rc" <<'PY'
import json,sys
d,p,n,rc=sys.argv[1:5]
try: m=json.load(open(d+'/meta.json'))
except Exception: m={}
m['property']=p; m['check_exit']=int(rc); m['detected']=(int(rc)==1)
m['confirmed_by']='tools/seedtest.sh: demo passes on the clean tree and fails with the patch; existing tests of the touched packages pass with the patch; ./check run with the patch applied to /repo and reverted'
json.dump(m,open('/verif/seeded/%s-%s/meta.json'%(p,n),'w'),indent=1,ensure_ascii=False)
PY
