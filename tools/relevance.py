#!/usr/bin/env python3
"""Debug aid: try to prove a dumped query using only assertions relevant to the goal (symbol-reachability),
growing the set step by step. Prints the first depth at which z3 answers unsat."""
import sys, re, subprocess, tempfile
lines = open(sys.argv[1]).read().split('\n')
head = [l for l in lines if not l.startswith('(assert') and not l.startswith('(check-sat') and not l.startswith('(get-')]
asserts = [l for l in lines if l.startswith('(assert')]
goal = asserts[-1]; rest = asserts[:-1]
tok = re.compile(r'[A-Za-z_$][A-Za-z0-9_.$!]*')
common = set(sys.argv[2:])
def syms(s): return set(t for t in tok.findall(s) if '!' in t and not t.startswith(('frontier',)) and t not in common)
def run(sel, T=5):
    with tempfile.NamedTemporaryFile('w', suffix='.smt2', delete=False) as f:
        f.write('\n'.join(head + sel + ['(check-sat)']))
    return subprocess.run(['z3-new', f'-T:{T}', f.name], capture_output=True, text=True).stdout.split('\n')[0]
cur = syms(goal); chosen = []
for depth in range(1, 8):
    new = [a for a in rest if a not in chosen and syms(a) & cur]
    if not new: break
    chosen += new
    for a in new: cur |= syms(a)
    r = run(chosen + [goal])
    print('depth', depth, 'assertions', len(chosen), '/', len(rest), '->', r)
    if r == 'unsat':
        break
